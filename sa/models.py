"""Library models (DESIGN §5, trusted base).  Keyed by the def path printed by the driver.

A model is `m(interp, st, frame, term, args, generic_args)` and returns
  a value | ('panic', msg) | ('fork', [(guard B or None, value | thunk(interp, st2, fr2))]).
Container models build uninterpreted structure terms (push/retain/write/take/...) that the rules
compare; lengths are ordinary integer terms.
"""
from fractions import Fraction as Fr

import copy
from .terms import (Poly, B, NAN, ZERO, ONE, INF, TRUE, FALSE, as_poly, bconst, bnot, band, bor, cmp_term,
                    t_min, t_max, t_abs, t_app, b_app, t_div, t_mod, t_idiv, t_tbl, t_shl)
from . import interp as I


def _num(v):
    if isinstance(v, I.Num):
        return v
    raise I.InterpError('model expected a number, got %r' % (v,))


def m_fmax(it, st, fr, t, args, ga):
    a, b = _num(args[0]), _num(args[1])
    return I.Num(t_max(a.term, b.term, st.ctx, 'fmax'), a.ty)


def m_fmin(it, st, fr, t, args, ga):
    a, b = _num(args[0]), _num(args[1])
    return I.Num(t_min(a.term, b.term, st.ctx, 'fmin'), a.ty)


def m_fclamp(it, st, fr, t, args, ga):
    x, lo, hi = _num(args[0]), _num(args[1]), _num(args[2])
    if x.term.is_nan():
        return I.Num(NAN, x.ty)
    # x is not NaN here and terms range over the reals: clamp(x, lo, hi) is the same term as x.max(lo).min(hi), and is
    # built with the same tags so that the two spellings compare equal
    return I.Num(t_min(t_max(x.term, lo.term, st.ctx, 'fmax'), hi.term, st.ctx, 'fmin'), x.ty)


def m_fabs(it, st, fr, t, args, ga):
    x = _num(args[0])
    return I.Num(t_abs(x.term, st.ctx), x.ty)


def m_imin(it, st, fr, t, args, ga):
    a, b = _num(args[0]), _num(args[1])
    return I.Num(t_min(a.term, b.term, st.ctx, 'min'), a.ty)


def m_imax(it, st, fr, t, args, ga):
    a, b = _num(args[0]), _num(args[1])
    return I.Num(t_max(a.term, b.term, st.ctx, 'max'), a.ty)


def _int_bounds(v):
    return I.INT_RANGES.get(v.ty, (0, 2 ** 64 - 1))


def m_saturating_sub(it, st, fr, t, args, ga):
    a, b = _num(args[0]), _num(args[1])
    lo, hi = _int_bounds(a)
    return I.Num(t_min(t_max(a.term - b.term, Poly.const(lo), st.ctx), Poly.const(hi), st.ctx), a.ty)


def m_saturating_add(it, st, fr, t, args, ga):
    a, b = _num(args[0]), _num(args[1])
    lo, hi = _int_bounds(a)
    return I.Num(t_min(t_max(a.term + b.term, Poly.const(lo), st.ctx), Poly.const(hi), st.ctx), a.ty)


def m_saturating_mul(it, st, fr, t, args, ga):
    a, b = _num(args[0]), _num(args[1])
    lo, hi = _int_bounds(a)
    return I.Num(t_min(t_max(a.term * b.term, Poly.const(lo), st.ctx), Poly.const(hi), st.ctx), a.ty)


def _wrapping(op):
    def m(it, st, fr, t, args, ga):
        from .terms import t_mod
        a, b = _num(args[0]), _num(args[1])
        lo, hi = _int_bounds(a)
        r = {'add': a.term + b.term, 'sub': a.term - b.term, 'mul': a.term * b.term}[op]
        rlo, rhi = st.ctx.rng(r)
        if rlo >= lo and rhi <= hi:
            return I.Num(r, a.ty)
        if lo == 0 and rlo >= 0:
            return I.Num(t_mod(r, Poly.const(hi + 1), st.ctx), a.ty)
        return I.Num(Poly.atom(('wrap', r, (hi + 1).bit_length() - 1)), a.ty)
    return m


def m_iclamp(it, st, fr, t, args, ga):
    x, lo, hi = _num(args[0]), _num(args[1]), _num(args[2])
    return I.Num(t_min(t_max(x.term, lo.term, st.ctx), hi.term, st.ctx), x.ty)


def m_partial_ne(it, st, fr, t, args, ga):
    """default PartialEq::ne = !eq: run the type's own eq"""
    ty = None
    for a in ga:
        if 'ty' in a:
            ty = a['ty']
            break
    if ty is not None:
        path = '<%s as core::cmp::PartialEq>::eq' % ty.get('s')
        if path in it.facts.fns:
            r = it.call_fn_sync(st, path, [args[0], args[1]])
            if isinstance(r, I.BoolV):
                return I.BoolV(bnot(r.b))
    return I.BoolV(B(('sym', st.fresh_name('ne'))))


def _bit_count_model(kind):
    """trailing_zeros / leading_zeros / count_ones / count_zeros of an integer: an integer in [0, bits] (the exact value is
    kept for constants; trailing_zeros of a non-zero value is at most floor(log2(max)))"""
    def m(it, st, fr, t, args, ga):
        a = _num(args[0])
        bits = {'u8': 8, 'i8': 8, 'u16': 16, 'i16': 16, 'u32': 32, 'i32': 32, 'u64': 64, 'i64': 64, 'usize': 64, 'isize': 64}.get(a.ty, 64)
        c = a.term.const_value()
        if c is not None and c == int(c) and c >= 0:
            v = int(c)
            b = bin(v)[2:].zfill(bits)[-bits:]
            r = {'trailing_zeros': bits if v == 0 else len(b) - len(b.rstrip('0')), 'leading_zeros': bits if v == 0 else len(b) - len(b.lstrip('0')),
                 'count_ones': b.count('1'), 'count_zeros': b.count('0')}[kind]
            return I.Num(Poly.const(r), 'u32')
        lo, hi = st.ctx.rng(a.term)
        top = bits
        bot = 0
        if kind == 'leading_zeros' and lo >= 1 and hi != INF and hi < 2 ** bits:
            bot, top = bits - int(hi).bit_length(), bits - int(lo).bit_length()
        if kind == 'trailing_zeros' and lo >= 1 and hi != INF:
            top = max(int(hi).bit_length() - 1, 0)
        if kind == 'count_ones' and lo >= 0 and hi != INF:
            top = min(bits, int(hi).bit_length())
            bot = 1 if lo >= 1 else 0
        r = st.ctx.sym_range(st.fresh_name(kind), bot, top, integer=True)
        st.ctx.sym_deps[r.as_single_atom()] = set(a.term.atoms()) if hasattr(st.ctx, 'sym_deps') else set()
        return I.Num(r, 'u32')
    return m


def m_abs_diff(it, st, fr, t, args, ga):
    a, b = _num(args[0]), _num(args[1])
    return I.Num(t_abs(a.term - b.term, st.ctx), a.ty)


def _float_class(it, st, x):
    """'nan' | 'inf' | 'finite' | None (unknown)"""
    from .terms import PINF_ATOM, NINF_ATOM
    if x.term.is_nan():
        return 'nan'
    a = x.term.as_single_atom()
    if a in (PINF_ATOM, NINF_ATOM):
        return 'inf'
    lo, hi = st.ctx.rng(x.term)
    if lo > -INF and hi < INF:
        return 'finite'
    return None


def _float_pred(name, truth):
    def m(it, st, fr, t, args, ga):
        x = _num(args[0])
        c = _float_class(it, st, x)
        if c is None:
            return I.BoolV(b_app(name, [x.term]))
        return I.BoolV(bconst(truth[c]))
    return m


def m_identity(it, st, fr, t, args, ga):
    return args[0]


def m_discriminant_value(it, st, fr, t, args, ga):
    return it.deref(st, args[0])


def m_panic(it, st, fr, t, args, ga):
    return ('panic', 'explicit panic (%s)' % t['callee'].get('def'))


def m_tan(it, st, fr, t, args, ga):
    x = _num(args[0])
    if x.term.is_nan():
        return I.Num(NAN, x.ty)
    return I.Num(Poly.atom(('tan', x.term)), x.ty)


def m_mem_replace(it, st, fr, t, args, ga):
    ref, new = args[0], args[1]
    old = it.deref(st, ref)
    it.store_ref(st, ref, new)
    return old


def m_mem_take(it, st, fr, t, args, ga):
    """core::mem::take(&mut x) = replace(x, Default::default()) for the primitive types"""
    ref = args[0]
    old = it.deref(st, ref)
    if isinstance(old, I.BoolV):
        new = I.BoolV(FALSE)
    elif isinstance(old, I.Num):
        new = I.Num(ZERO, old.ty)
    else:
        raise I.InterpError('mem::take of %r' % (old,))
    it.store_ref(st, ref, new)
    return old


# ---------------------------------------------------------------- Option / Result

def _known_variant(e):
    if not isinstance(e, I.EnumV) or e.variant is None:
        raise I.InterpError('model needs a known variant, got %r' % (e,))
    return e.variant


def m_unwrap_or(it, st, fr, t, args, ga):
    e, d = args[0], args[1]
    v = _known_variant(e)
    if v == 1:
        pl = e.payload[1]
        return pl[0]
    return d


def m_result_ok(it, st, fr, t, args, ga):
    e = args[0]
    if isinstance(e, I.EnumV) and e.variant is not None:
        if e.variant == 0:
            return I.EnumV('core::option::Option', 1, {1: [e.payload[0][0]]}, vnames=['None', 'Some'])
        return I.EnumV('core::option::Option', 0, {0: []}, vnames=['None', 'Some'])
    return I.Opaque('Option', 'ok()')


def m_result_unwrap(it, st, fr, t, args, ga):
    e = args[0]
    v = _known_variant(e)
    if v == 0:
        return e.payload[0][0]
    return ('panic', 'Result::unwrap on Err(%r)' % (e.payload.get(1),))


def m_option_unwrap(it, st, fr, t, args, ga):
    e = args[0]
    v = _known_variant(e)
    if v == 1:
        return e.payload[1][0]
    return ('panic', 'Option::unwrap on None')


def some(v):
    return I.EnumV('core::option::Option', 1, {1: [v]}, vnames=['None', 'Some'])


def none():
    return I.EnumV('core::option::Option', 0, {0: []}, vnames=['None', 'Some'])


# ---------------------------------------------------------------- heapless::Vec

def _cont(it, st, v, kinds=None):
    c = it.deref(st, v) if isinstance(v, I.RefV) else v
    if not isinstance(c, I.ContV):
        raise I.InterpError('model expected a container, got %r' % (c,))
    return c


def _cap_from(it, ga, fr):
    for a in ga:
        if 'const' in a:
            return it.const_arg_poly(a['const'], fr.genv)
    return None


def _elem_ty_from(ga):
    for a in ga:
        if 'ty' in a:
            return a['ty']
    return None


def m_vec_new(it, st, fr, t, args, ga):
    return I.ContV('vec', ('new',), length=ZERO, cap=_cap_from(it, ga, fr), elem_ty=_elem_ty_from(ga))


def _hash_val(it, v):
    if isinstance(v, I.Num):
        return v.term
    if isinstance(v, I.BoolV):
        return v.b
    if isinstance(v, I.StructV):
        return (v.path,) + tuple(_hash_val(it, f) for f in v.fields)
    return repr(v)


def m_vec_push(it, st, fr, t, args, ga):
    ref, x = args[0], args[1]
    c = _cont(it, st, ref)
    cap = c.cap if c.cap is not None else _cap_from(it, ga, fr)
    xh = _hash_val(it, x)

    def ok(it2, s2, f2):
        c2 = _cont(it2, s2, it2.operand(s2, f2, t['args'][0]))
        c2.term = ('push', c2.term, xh)
        c2.len = c2.len + 1
        c2.extra = dict(c2.extra)
        return I.EnumV('core::result::Result', 0, {0: [I.UnitV()]}, vnames=['Ok', 'Err'])

    def full(it2, s2, f2):
        return I.EnumV('core::result::Result', 1, {1: [x]}, vnames=['Ok', 'Err'])
    if cap is None:
        return ('fork', [(None, ok)])
    return ('fork', [(cmp_term('Lt', c.len, cap), ok), (cmp_term('Ge', c.len, cap), full)])


def m_vec_len(it, st, fr, t, args, ga):
    c = _cont(it, st, args[0])
    return I.Num(c.len, 'usize')


def m_vec_is_empty(it, st, fr, t, args, ga):
    c = _cont(it, st, args[0])
    return I.BoolV(cmp_term('Eq', c.len, 0))


def m_vec_remove(it, st, fr, t, args, ga):
    """Vec::remove(i): the element at i, the rest shifted down (a sub-sequence of the old list); panics when i >= len"""
    c = _cont(it, st, args[0])
    idx = _num(args[1])
    ety = c.elem_ty or {'k': 'uint', 'n': 'u8'}

    def ok(it2, s2, f2):
        c2 = _cont(it2, s2, it2.operand(s2, f2, t['args'][0]))
        x = elem_term(c2.term, idx.term, c2.len, s2.ctx, ety)
        c2.term = ('remove', c2.term, idx.term)
        c2.len = c2.len - 1
        return I.Num(x, ety.get('n', 'u8'))

    def oob(it2, s2, f2):
        return ('panic', 'Vec::remove index out of bounds')
    return ('fork', [(cmp_term('Lt', idx.term, c.len), ok), (cmp_term('Ge', idx.term, c.len), oob)])


def m_vec_is_full(it, st, fr, t, args, ga):
    c = _cont(it, st, args[0])
    cap = c.cap if c.cap is not None else _cap_from(it, ga, fr)
    if cap is None:
        return I.BoolV(B(('sym', st.fresh_name('is_full'))))
    return I.BoolV(cmp_term('Ge', c.len, cap))


def m_vec_clear(it, st, fr, t, args, ga):
    c = _cont(it, st, args[0])
    c.term = ('clear',)
    c.len = ZERO
    return I.UnitV()


def m_vec_retain(it, st, fr, t, args, ga):
    c = _cont(it, st, args[0])
    clo = args[1]
    if not isinstance(clo, I.ClosureV):
        raise I.InterpError('retain with non-closure %r' % (clo,))
    # evaluate the predicate on a generic element
    ety = c.elem_ty or {'k': 'uint', 'n': 'u8'}
    ev = it.sym_value(st, ety, '$elem')
    cell = st.new_cell(ev)
    r = it.call_closure(st, clo, [I.RefV(cell)])
    if not isinstance(r, I.BoolV):
        raise I.InterpError('retain predicate is not boolean: %r' % (r,))
    c.term = ('retain', c.term, r.b)
    old_len = c.len
    nl = ('sym', st.fresh_name('len_after_retain'))
    lo, hi = st.ctx.rng(old_len)
    st.ctx.ranges[nl] = (Fr(0), hi)
    st.ctx.int_atoms.add(nl)
    c.len = Poly.atom(nl)
    st.ctx.assume(cmp_term('Le', c.len, old_len))
    return I.UnitV()


def m_vec_is_full(it, st, fr, t, args, ga):
    c = _cont(it, st, args[0])
    cap = c.cap if c.cap is not None else _cap_from(it, ga, fr)
    if cap is None:
        return I.BoolV(B(('sym', st.fresh_name('is_full'))))
    return I.BoolV(cmp_term('Ge', c.len, cap))


def m_vec_capacity(it, st, fr, t, args, ga):
    c = _cont(it, st, args[0])
    cap = c.cap if c.cap is not None else _cap_from(it, ga, fr)
    if cap is None:
        raise I.InterpError('Vec capacity unknown')
    return I.Num(cap, 'usize')


def m_vec_remove(it, st, fr, t, args, ga):
    c = _cont(it, st, args[0])
    i = _num(args[1])
    ok = st.ctx.decide(cmp_term('Lt', i.term, c.len))
    key = 'vec-remove@%s#%s' % (fr.fn['path'], it.site_ordinal(fr, fr.bb))
    detail = 'remove(%r) with len %r' % (i.term, c.len)
    if ok is False:
        st.obligations.append(I.Obligation('bounds', fr.fn['path'], t['span'], detail, 'violated', key))
        return ('panic', 'Vec::remove index out of bounds')
    st.obligations.append(I.Obligation('bounds', fr.fn['path'], t['span'], detail, 'discharged' if ok else 'unknown', key))
    if ok is None:
        st.ctx.assume(cmp_term('Lt', i.term, c.len))
    ety = c.elem_ty or {'k': 'uint', 'n': 'u8'}
    v = _elem_value(it, st, c, i.term)
    c.term = ('remove', c.term, i.term)
    c.len = c.len - 1
    return v


def m_vec_pop(it, st, fr, t, args, ga):
    c = _cont(it, st, args[0])

    def some_(it2, s2, f2):
        c2 = _cont(it2, s2, it2.operand(s2, f2, t['args'][0]))
        v = _elem_value(it2, s2, c2, c2.len - 1)
        c2.term = ('pop', c2.term)
        c2.len = c2.len - 1
        return some(v)

    def none_(it2, s2, f2):
        return none()
    return ('fork', [(cmp_term('Gt', c.len, 0), some_), (cmp_term('Eq', c.len, 0), none_)])


def m_range_contains(it, st, fr, t, args, ga):
    r = it.deref(st, args[0]) if isinstance(args[0], I.RefV) else args[0]
    x = it.deref(st, args[1]) if isinstance(args[1], I.RefV) else args[1]
    if not isinstance(r, I.StructV) or not isinstance(x, I.Num) or 'start' not in r.names:
        return I.BoolV(B(('sym', st.fresh_name('contains'))))
    lo, hi = r.get('start').term, r.get('end').term
    upper = 'Le' if r.path.endswith('RangeInclusive') else 'Lt'
    return I.BoolV(band(cmp_term('Ge', x.term, lo), cmp_term(upper, x.term, hi)))


def m_vec_deref(it, st, fr, t, args, ga):
    c = _cont(it, st, args[0])
    return I.ContV('slice', c.term, length=c.len, elem_ty=c.elem_ty, extra=dict(c.extra))


def m_vec_into_iter(it, st, fr, t, args, ga):
    c = _cont(it, st, args[0])
    return I.ContV('vec_iter', c.term, length=c.len, elem_ty=c.elem_ty)


def _pushed_elems(term):
    """elements of a vec term built only by new/push; None if the base is unknown"""
    out = []
    while True:
        if term == ('new',) or term == ('clear',):
            return list(reversed(out))
        if isinstance(term, tuple) and term and term[0] == 'push':
            out.append(term[2])
            term = term[1]
            continue
        return None


def m_vec_iter_next(it, st, fr, t, args, ga):
    c = _cont(it, st, args[0])
    elems = _pushed_elems(c.term)
    ety = c.elem_ty or {'k': 'uint', 'n': 'u32'}

    def some_(it2, s2, f2):
        name = s2.fresh_name('iter_elem')
        v = it2.sym_value(s2, ety, name)
        if elems is not None and elems and all(isinstance(e, Poly) for e in elems) and isinstance(v, I.Num):
            los, his = zip(*[s2.ctx.rng(e) for e in elems])
            s2.ctx.ranges[('sym', name)] = (min(los), max(his))
        return some(v)

    def none_(it2, s2, f2):
        return none()
    alts = []
    if elems is None or elems:
        alts.append((None, some_))
    alts.append((None, none_))
    return ('fork', alts)


def m_range_next(it, st, fr, t, args, ga):
    r = it.deref(st, args[0])
    if not isinstance(r, I.StructV):
        raise I.InterpError('Range::next on %r' % (r,))
    start, end = r.get('start'), r.get('end')

    def some_(it2, s2, f2):
        r2 = it2.deref(s2, it2.operand(s2, f2, t['args'][0]))
        s = r2.get('start')
        r2.fields[r2.names.index('start')] = I.Num(s.term + 1, s.ty)
        return some(I.Num(s.term, s.ty))

    def none_(it2, s2, f2):
        return none()
    return ('fork', [(cmp_term('Lt', start.term, end.term), some_), (cmp_term('Ge', start.term, end.term), none_)])


# ---------------------------------------------------------------- slices

def m_slice_len(it, st, fr, t, args, ga):
    c = _cont(it, st, args[0])
    return I.Num(c.len, 'usize')


def m_slice_is_empty(it, st, fr, t, args, ga):
    c = _cont(it, st, args[0])
    return I.BoolV(cmp_term('Eq', c.len, 0))


def m_slice_contains(it, st, fr, t, args, ga):
    """<[T]>::contains: false for a sequence known to be empty; any other state keeps the default treatment of the call
    (the result then still remembers which symbols its arguments mentioned)"""
    try:
        c = _cont(it, st, args[0])
    except I.InterpError:
        return I.DECLINE
    if c.len is not None and st.ctx.decide(cmp_term('Eq', c.len, 0)) is True:
        return I.BoolV(FALSE)
    return I.DECLINE


def m_slice_iter(it, st, fr, t, args, ga):
    c = _cont(it, st, args[0])
    return I.ContV('slice_iter', c.term, length=c.len, elem_ty=c.elem_ty, extra=dict(c.extra))


def _opt_ref_num(it, st, c, fname):
    """Option<&T> (Option<T> for by-value iterators) result of last()/max()/min() on a sequence: None iff empty"""
    ety = c.elem_ty or {'k': 'uint', 'n': 'u8'}
    by_value = bool(c.extra.get('by_value')) if c.extra else False

    def some_(it2, s2, f2):
        if ety.get('k') not in ('int', 'uint', 'float'):
            if fname != 'last':
                raise I.InterpError('%s over a sequence of non-numeric elements' % fname)
            v = _elem_value(it2, s2, c, c.len - 1)
            return some(v if by_value else I.RefV(s2.new_cell(v)))
        tm = select_term(fname, c.term, c.len, s2.ctx, ety)
        if by_value:
            return some(I.Num(tm, ety.get('n', 'u8')))
        cell = s2.new_cell(I.Num(tm, ety.get('n', 'u8')))
        return some(I.RefV(cell))

    def none_(it2, s2, f2):
        return none()
    return ('fork', [(cmp_term('Gt', c.len, 0), some_), (cmp_term('Eq', c.len, 0), none_)])


def elem_term(term, idx, length, ctx, ety=None):
    """normal form of element `idx` of a sequence term: elem(push(T,x), len(T)) = x, elem(push(T,x), i<len(T)) =
    elem(T,i), elem(from(T,s), i) = elem(T, s+i)"""
    ety = ety or {'k': 'uint', 'n': 'u8'}
    idx = as_poly(idx)
    while isinstance(term, tuple) and term:
        if term[0] == 'from':
            idx = idx + term[2]
            length = (length + term[2]) if length is not None else None
            term = term[1]
            continue
        if term[0] == 'push' and length is not None and isinstance(term[2], Poly):
            inner_len = length - 1
            if ctx.decide(cmp_term('Eq', idx, inner_len)) is True:
                return term[2]
            if ctx.decide(cmp_term('Lt', idx, inner_len)) is True:
                term, length = term[1], inner_len
                continue
        break
    tm = t_app('elem', [term, idx])
    a = tm.as_single_atom()
    if ety['k'] in ('int', 'uint'):
        lo, hi = I.INT_RANGES[ety['n']]
        hull = ctx.elem_hull(term)
        if hull is not None:
            lo, hi = max(Fr(lo), hull[0]), min(Fr(hi), hull[1])
        ctx.ranges.setdefault(a, (Fr(lo), Fr(hi)))
        ctx.int_atoms.add(a)
    return tm


def select_term(fname, term, length, ctx, ety=None):
    """normal form of last/max/min over a sequence term:
       last(push(T,x)) = x;  max(push(T,x)) = x if T is empty, max(max(T), x) if T is non-empty (same for min)"""
    ety = ety or {'k': 'uint', 'n': 'u8'}

    def atom_of(tt):
        tm = t_app(fname, [tt])
        a = tm.as_single_atom()
        if ety['k'] in ('int', 'uint'):
            lo, hi = I.INT_RANGES[ety['n']]
            hull = ctx.elem_hull(tt)
            if hull is not None:
                lo, hi = max(Fr(lo), hull[0]), min(Fr(hi), hull[1])
            ctx.ranges.setdefault(a, (Fr(lo), Fr(hi)))
            ctx.int_atoms.add(a)
        return tm
    if fname == 'last':
        return elem_term(term, length - 1, length, ctx, ety)
    if length is not None and ctx.decide(cmp_term('Eq', length, 1)) is True:
        return elem_term(term, ZERO, length, ctx, ety)    # max/min of a one-element sequence is its element
    if isinstance(term, tuple) and term and term[0] == 'push' and isinstance(term[2], Poly):
        x = term[2]
        inner_len = length - 1
        e = ctx.decide(cmp_term('Eq', inner_len, 0))
        if e is True:
            return x
        if e is False:
            inner = select_term(fname, term[1], inner_len, ctx, ety)
            return (t_max if fname == 'max' else t_min)(inner, x, ctx)
    return atom_of(term)


def m_slice_last(it, st, fr, t, args, ga):
    return _opt_ref_num(it, st, _cont(it, st, args[0]), 'last')


def m_slice_first(it, st, fr, t, args, ga):
    """<[T]>::first: Some(&elem 0) exactly when the slice is non-empty"""
    c = _cont(it, st, args[0])
    if c.len is None:
        raise I.InterpError('first() of a sequence of unknown length')

    def some_(it2, s2, f2):
        c2 = _cont(it2, s2, it2.operand(s2, f2, t['args'][0]))
        return some(I.RefV(s2.new_cell(_elem_value(it2, s2, c2, ZERO))))
    return ('fork', [(cmp_term('Gt', c.len, 0), some_), (cmp_term('Eq', c.len, 0), lambda it2, s2, f2: none())])


def _m_slice_split(which):
    """<[T]>::split_first / split_last: None for an empty slice, otherwise (the first / last element, the rest)"""
    def m(it, st, fr, t, args, ga):
        c = _cont(it, st, args[0])
        if c.len is None:
            raise I.InterpError('%s of a sequence of unknown length' % which)

        def some_(it2, s2, f2):
            c2 = _cont(it2, s2, it2.operand(s2, f2, t['args'][0]))
            ex = {k_: v_ for k_, v_ in (c2.extra or {}).items() if k_ not in ('items',)}
            if which == 'split_first':
                e = _elem_value(it2, s2, c2, ZERO)
                rest = I.ContV('slice', ('from', c2.term, Poly.const(1)), length=c2.len - 1, elem_ty=c2.elem_ty, extra=ex)
            else:
                e = _elem_value(it2, s2, c2, c2.len - 1)
                rest = I.ContV('slice', ('take', c2.term, c2.len - 1), length=c2.len - 1, elem_ty=c2.elem_ty, extra=ex)
            return some(I.TupleV([I.RefV(s2.new_cell(e)), I.RefV(s2.new_cell(rest))]))
        return ('fork', [(cmp_term('Gt', c.len, 0), some_), (cmp_term('Eq', c.len, 0), lambda it2, s2, f2: none())])
    return m


def m_iter_max(it, st, fr, t, args, ga):
    return _opt_ref_num(it, st, _cont(it, st, args[0]), 'max')


def m_iter_min(it, st, fr, t, args, ga):
    return _opt_ref_num(it, st, _cont(it, st, args[0]), 'min')


def _selection_fn_kind(f):
    """`u8::max`, `Ord::min`, `core::cmp::max` ... passed as a function value: 'max' / 'min', else None"""
    if isinstance(f, I.FnV):
        tail = f.path.rsplit('::', 1)[-1]
        if tail in ('max', 'min') and ('cmp' in f.path or 'Ord' in f.path or 'core::num' in f.path):
            return tail
    return None


def m_iter_count(it, st, fr, t, args, ga):
    c = _cont(it, st, args[0])
    if c.len is None:
        raise I.InterpError('count over a sequence of unknown length')
    return I.Num(c.len, 'usize')


def m_iter_reduce(it, st, fr, t, args, ga):
    """Iterator::reduce(f) over a sequence when f is a *selection*: evaluated on two generic elements (older, newer) it returns
    newer (-> last), older (-> first), max(older, newer) or min(older, newer).  The result is then Some(last/first/max/min of the
    sequence), None for an empty sequence.  Anything else fails closed."""
    c = _cont(it, st, args[0])
    clo = args[1]
    fn_kind = _selection_fn_kind(clo)
    if not isinstance(clo, I.ClosureV) and fn_kind is None:
        raise I.InterpError('reduce with non-closure %r' % (clo,))
    ety = c.elem_ty or {'k': 'uint', 'n': 'u8'}
    if ety.get('k') not in ('int', 'uint'):
        raise I.InterpError('reduce over non-integer elements')
    lo, hi = I.INT_RANGES[ety['n']]
    by_value = bool(c.extra.get('by_value')) if c.extra else False

    def classify(state):
        probe = state.fork()
        x = probe.ctx.sym_range(probe.fresh_name('reduce.older'), lo, hi, integer=True)
        y = probe.ctx.sym_range(probe.fresh_name('reduce.newer'), lo, hi, integer=True)
        ax = I.Num(x, ety['n']) if by_value else I.RefV(probe.new_cell(I.Num(x, ety['n'])))
        ay = I.Num(y, ety['n']) if by_value else I.RefV(probe.new_cell(I.Num(y, ety['n'])))
        r = it.call_closure(probe, clo, [ax, ay])
        if isinstance(r, I.RefV):
            r = it.deref(probe, r)
        if not isinstance(r, I.Num):
            raise I.InterpError('reduce closure returns %r' % (r,))
        if r.term == y:
            return 'last'
        if r.term == x:
            return 'first'
        if r.term == t_max(x, y, probe.ctx):
            return 'max'
        if r.term == t_min(x, y, probe.ctx):
            return 'min'
        raise I.InterpError('reduce closure is not a selection of its arguments: %r' % (r.term,))

    def result(state, kind):
        outs_ = []
        for cond, nonempty in ((cmp_term('Gt', c.len, 0), True), (cmp_term('Eq', c.len, 0), False)):
            s2 = state.fork()
            if not s2.ctx.assume(cond, True):
                continue
            if not nonempty:
                outs_.append((s2, none()))
                continue
            tm = elem_term(c.term, ZERO, c.len, s2.ctx, ety) if kind == 'first' else select_term(kind, c.term, c.len, s2.ctx, ety)
            v = I.Num(tm, ety['n'])
            outs_.append((s2, some(v if by_value else I.RefV(s2.new_cell(v)))))
        return outs_

    try:
        kind = fn_kind if fn_kind is not None else classify(st)
    except I.InterpError as e:
        if 'fork' not in str(e) and 'variant' not in str(e):
            raise
        # the selection depends on a mode the state leaves open (a small unit-only enum the closure matches on): one case
        # per variant
        enums = {}

        def walk(v, depth=0):
            if depth > 4:
                return
            if isinstance(v, I.EnumV) and v.variant is None and v.name and (v.possible is None or len(v.possible) <= 4):
                enums.setdefault(v.name, v)
            elif isinstance(v, I.RefV):
                try:
                    walk(it.deref(st, v), depth + 1)
                except I.InterpError:
                    pass
            elif isinstance(v, I.StructV):
                for f_ in v.fields:
                    walk(f_, depth + 1)
            elif isinstance(v, I.ClosureV):
                for f_ in v.caps:
                    walk(f_, depth + 1)
        walk(clo)
        if not enums or len(enums) > 3:
            raise
        import itertools
        doms = []
        for d in enums.values():
            adt = it.facts.adts.get(d.path)
            poss = d.possible if d.possible is not None else (list(range(len(adt['variants']))) if adt else None)
            if not poss:
                raise
            doms.append([(d, vi) for vi in poss])
        if len(list(itertools.product(*doms))) > 16:
            raise
        states = []
        for combo in itertools.product(*doms):
            s2 = st.fork()
            for d, vi in combo:
                it.refine_enum(s2, d, vi)
            states += result(s2, classify(s2))
        return ('states', states)

    def some_(it2, s2, f2):
        if kind == 'first':
            tm = elem_term(c.term, ZERO, c.len, s2.ctx, ety)
        else:
            tm = select_term(kind, c.term, c.len, s2.ctx, ety)
        v = I.Num(tm, ety['n'])
        return some(v if by_value else I.RefV(s2.new_cell(v)))

    def none_(it2, s2, f2):
        return none()
    return ('fork', [(cmp_term('Gt', c.len, 0), some_), (cmp_term('Eq', c.len, 0), none_)])


def m_slice_get(it, st, fr, t, args, ga):
    """<[T]>::get(i): Some(&elem) when i < len, None otherwise (constant tables and abstract sequences)"""
    tgt = it.deref(st, args[0]) if isinstance(args[0], I.RefV) else args[0]
    idx = args[1]
    if not isinstance(idx, I.Num):
        raise I.InterpError('slice::get with %r' % (idx,))
    if isinstance(tgt, I.ArrV) and getattr(tgt, 'table', None):
        tb = it.facts.tables.get(tgt.table)
        if tb is None:
            raise I.InterpError('slice::get on unknown table %s' % tgt.table)
        n = len(tb)

        def some_t(it2, s2, f2):
            from .terms import t_tbl
            return some(I.RefV(s2.new_cell(I.Num(t_tbl(it2.facts.real('table', tgt.table), idx.term, s2.ctx), 'f32'))))
        return ('fork', [(cmp_term('Lt', idx.term, n), some_t), (cmp_term('Ge', idx.term, n), lambda it2, s2, f2: none())])
    c = _cont(it, st, args[0])

    def some_c(it2, s2, f2):
        return some(I.RefV(s2.new_cell(_elem_value(it2, s2, c, idx.term))))
    return ('fork', [(cmp_term('Lt', idx.term, c.len), some_c), (cmp_term('Ge', idx.term, c.len), lambda it2, s2, f2: none())])


def m_option_filter(it, st, fr, t, args, ga):
    """Option::filter(self, p): Some(x) when self is Some(x) and p(&x), None otherwise"""
    e, clo = args[0], args[1]
    v = _known_variant(e)
    if v == 0:
        return none()
    if not isinstance(clo, I.ClosureV):
        raise I.InterpError('Option::filter with non-closure')
    x = e.payload[1][0]
    xcell = st.new_cell(x)
    try:
        r = it.call_closure(st.fork(), clo, [I.RefV(xcell)])
        if isinstance(r, I.BoolV):
            return ('fork', [(r.b, some(x)), (bnot(r.b), none())])
    except I.InterpError as ex:
        if 'fork inside closure' not in str(ex):
            raise
    # a predicate that branches internally: follow every branch
    states = []
    for s2, r in closure_results(it, st, clo, [I.RefV(xcell)]):
        if not isinstance(r, I.BoolV):
            raise I.InterpError('Option::filter predicate is not boolean: %r' % (r,))
        for cond, val in ((r.b, some(copy.deepcopy(x))), (bnot(r.b), none())):
            s3 = s2.fork()
            if s3.ctx.assume(cond) is not False:
                states.append((s3, val))
    return ('states', states)


def m_option_copied(it, st, fr, t, args, ga):
    e = args[0]
    v = _known_variant(e)
    if v == 0:
        return none()
    x = e.payload[1][0]
    return some(it.deref(st, x) if isinstance(x, I.RefV) else x)


def m_slice_from_ref(it, st, fr, t, args, ga):
    """core::slice::from_ref(&x): the one-element slice [x]"""
    x = it.deref(st, args[0]) if isinstance(args[0], I.RefV) else args[0]
    ety = None
    if isinstance(x, I.Num):
        ety = {'k': 'uint' if x.ty.startswith('u') else ('float' if x.ty.startswith('f') else 'int'), 'n': x.ty}
    return I.ContV('slice', ('lit', (it._hashable(x),)), length=ONE, elem_ty=ety, extra={'items': [x]})


def _elem_value(it, st, c, idx_poly):
    """abstract element `idx` of a slice container"""
    term = c.term
    idx = as_poly(idx_poly)
    if c.elem_ty is not None and c.elem_ty.get('k') in ('int', 'uint') and c.len is not None:
        return I.Num(elem_term(term, idx, c.len, st.ctx, c.elem_ty), c.elem_ty['n'])
    # normalise elem(from(T, s), i) = elem(T, s+i)
    while isinstance(term, tuple) and term and term[0] == 'from':
        idx = idx + term[2]
        term = term[1]
    items = c.extra.get('items') if c.extra else None
    if items is not None and idx.const_value() is not None:
        return items[int(idx.const_value())]
    ety = c.elem_ty or {'k': 'uint', 'n': 'u8'}
    name = 'elem(%r,%r)' % (term, idx)
    v = it.sym_value(st, ety, name)
    it.apply_invariants(st, v)
    return v


def _closure_outcomes(it, st, clo, elem_value, extra_args=None):
    """abstract execution of a closure body that may branch: returns the list of end states (forked copies).
    The closure is called as clo(extra_args..., &elem_value)."""
    s2 = st.fork()
    fn = it.facts.fns.get(clo.path)
    if fn is None:
        raise I.InterpError('closure body not in facts: %s' % clo.path)
    sub = I.Frame(fn, fn, {}, len(s2.frames))
    cl_cell = s2.new_cell(clo)
    sub.locals[1] = s2.new_cell(I.RefV(cl_cell, (), True))
    k = 2
    for a in (extra_args or []):
        sub.locals[k] = s2.new_cell(a)
        k += 1
    sub.locals[k] = s2.new_cell(I.RefV(s2.new_cell(elem_value)))
    s2.frames.append(sub)
    s2.probe = (len(s2.frames) - 1, None, frozenset(range(len(fn['blocks']))))
    outs = it.run(s2)
    bad = [o for o in outs if o.status not in ('probe-exit',)]
    for o in bad:
        if o.status in ('panic', 'stuck'):
            raise I.InterpError('closure body %s: %s' % (o.status, o.panic_info))
    return [o for o in outs if o.status == 'probe-exit']


def closure_results(it, st, clo, arg_values):
    """run a closure body that may branch: [(state, return value)] on forked copies of `st` (the closure frame already
    popped, ready to continue in the caller).  Panicking / stuck bodies raise."""
    s2 = st.fork()
    fn = it.facts.fns.get(clo.path)
    if fn is None:
        raise I.InterpError('closure body not in facts: %s' % clo.path)
    sub = I.Frame(fn, fn, {}, len(s2.frames))
    cl_cell = s2.new_cell(clo)
    loc = fn.get('locals') or []
    by_ref = not (len(loc) > 1 and loc[1]['ty'].get('k') != 'ref')
    sub.locals[1] = s2.new_cell(I.RefV(cl_cell, (), True)) if by_ref else cl_cell
    for i, a in enumerate(arg_values):
        sub.locals[i + 2] = s2.new_cell(a)
    prev_probe = getattr(st, 'probe', None)
    s2.frames.append(sub)
    s2.probe = (len(s2.frames) - 1, None, frozenset(range(len(fn['blocks']))))
    outs = it.run(s2)
    res = []
    for o in outs:
        if o.status in ('panic', 'stuck'):
            raise I.InterpError('closure body %s: %s' % (o.status, o.panic_info))
        if o.status != 'probe-exit':
            continue
        s3 = o.state
        f3 = s3.frames.pop()
        rv = s3.cells.get(f3.locals.get(0))
        s3.probe = prev_probe
        s3.status = 'running'
        res.append((s3, rv if rv is not None else I.UnitV()))
    return res


def m_for_each(it, st, fr, t, args, ga):
    c = _cont(it, st, args[0])
    clo = args[1]
    if not isinstance(clo, I.ClosureV):
        raise I.InterpError('for_each with non-closure')
    n = c.len.const_value()
    if n is not None and n <= 8:
        snapshot = st.fork()
        try:
            for i in range(int(n)):
                ev = _elem_value(it, st, c, Poly.const(i))
                cell = st.new_cell(ev)
                it.call_closure(st, clo, [I.RefV(cell)])
            return I.UnitV()
        except I.InterpError as e:
            if 'fork inside closure' not in str(e):
                raise
            # branching closure: unroll on forked copies of the untouched state, following every branch
            states = [snapshot]
            for i in range(int(n)):
                nxt = []
                for s_ in states:
                    ev = _elem_value(it, s_, c, Poly.const(i))
                    prev_probe = getattr(s_, 'probe', None)
                    for o in _closure_outcomes(it, s_, clo, ev):
                        s3 = o.state
                        s3.frames.pop()
                        s3.probe = prev_probe
                        s3.status = 'running'
                        nxt.append(s3)
                states = nxt
                if len(states) > 256:
                    raise I.InterpError('for_each unrolling explodes')
            return ('states', [(s_, I.UnitV()) for s_ in states])
    # unknown trip count: Kleene iteration on the ranges of the captured scalar targets
    leaves = []

    def collect(ref, v, path):
        if isinstance(v, I.Num):
            leaves.append((ref, path, v))
        elif isinstance(v, I.StructV):
            for i, f in enumerate(v.fields):
                collect(ref, f, path + (('field', i),))
    for cap in clo.caps:
        if isinstance(cap, I.RefV) and cap.mut:
            collect(cap, it.deref(st, cap), ())
    cur = {}
    for ref, path, v in leaves:
        cur[(ref.cell, ref.proj + path)] = st.ctx.rng(v.term)
    orig_terms = {(ref.cell, ref.proj + path): v.term for ref, path, v in leaves}
    changed_keys = set()
    last_outs = []
    zero_iter = n == 0
    for rounds in range(6 if not zero_iter else 0):
        s1 = st.fork()
        syms = {}
        for ref, path, v in leaves:
            key = (ref.cell, ref.proj + path)
            a = ('sym', s1.fresh_name('fe'))
            s1.ctx.ranges[a] = cur[key]
            if v.ty in I.INT_RANGES:
                s1.ctx.int_atoms.add(a)
            syms[key] = a
            it.store_ref(s1, I.RefV(ref.cell, ref.proj + path, True), I.Num(Poly.atom(a), v.ty))
        ev = _elem_value(it, s1, c, s1.ctx.sym_range(s1.fresh_name('i'), 0, 2 ** 32, integer=True))
        outs = _closure_outcomes(it, s1, clo, ev)
        last_outs = outs
        stable = True
        for o in outs:
            for ref, path, v in leaves:
                key = (ref.cell, ref.proj + path)
                nv = it.deref(o.state, I.RefV(ref.cell, ref.proj + path))
                if not isinstance(nv, I.Num) or nv.term == Poly.atom(syms[key]):
                    continue
                changed_keys.add(key)
                lo, hi = o.ctx.rng(nv.term)
                olo, ohi = cur[key]
                nlo, nhi = min(lo, olo), max(hi, ohi)
                if (nlo, nhi) != (olo, ohi):
                    stable = False
                    if rounds >= 3 and v.ty in I.INT_RANGES:
                        tlo, thi = I.INT_RANGES[v.ty]
                        nlo = Fr(tlo) if nlo < olo else nlo
                        nhi = Fr(thi) if nhi > ohi else nhi
                    cur[key] = (nlo, nhi)
        if stable:
            break
    # obligations met inside the body (last, stable round) belong to this call
    seen_keys = {(ob.key, ob.status) for ob in st.obligations}
    for o in last_outs:
        for ob in o.obligations:
            if (ob.key, ob.status) not in seen_keys:
                seen_keys.add((ob.key, ob.status))
                st.obligations.append(ob)
    # post-state: changed leaves become fresh symbols over the stable hull; untouched leaves keep their term
    for ref, path, v in leaves:
        key = (ref.cell, ref.proj + path)
        if key in changed_keys:
            a = ('sym', st.fresh_name('after_for_each'))
            st.ctx.ranges[a] = cur[key]
            if v.ty in I.INT_RANGES:
                st.ctx.int_atoms.add(a)
            it.store_ref(st, I.RefV(ref.cell, ref.proj + path, True), I.Num(Poly.atom(a), v.ty))
        else:
            it.store_ref(st, I.RefV(ref.cell, ref.proj + path, True), I.Num(orig_terms[key], v.ty))
    return I.UnitV()

def m_range_incl_new(it, st, fr, t, args, ga):
    a, b = _num(args[0]), _num(args[1])
    return I.StructV('core::ops::range::RangeInclusive', ['start', 'end', 'exhausted'], [a, b, I.BoolV(FALSE)])


def m_range_incl_next(it, st, fr, t, args, ga):
    r = it.deref(st, args[0])
    if not isinstance(r, I.StructV) or 'start' not in r.names:
        raise I.InterpError('RangeInclusive::next on %r' % (r,))
    start, end = r.get('start'), r.get('end')

    def some_(it2, s2, f2):
        r2 = it2.deref(s2, it2.operand(s2, f2, t['args'][0]))
        s_ = r2.get('start')
        # abstractly: the yielded value is the current start (start <= end); afterwards start' in (start, end] or exhausted
        nm = s2.fresh_name('incl_next')
        lo, _ = s2.ctx.rng(s_.term)
        _, hi = s2.ctx.rng(r2.get('end').term)
        a = ('sym', nm)
        s2.ctx.ranges[a] = (lo, hi)
        s2.ctx.int_atoms.add(a)
        r2.fields[r2.names.index('start')] = I.Num(Poly.atom(a), s_.ty)
        r2.fields[r2.names.index('exhausted')] = I.BoolV(B(('sym', s2.fresh_name('exhausted'))))
        return some(I.Num(s_.term, s_.ty))

    def none_(it2, s2, f2):
        return none()
    ex = r.get('exhausted')
    alts = [(cmp_term('Le', start.term, end.term), some_), (None, none_)]
    return ('fork', alts)


def m_slice_iter_next(it, st, fr, t, args, ga):
    c = _cont(it, st, args[0])

    def some_(it2, s2, f2):
        c2 = _cont(it2, s2, it2.operand(s2, f2, t['args'][0]))
        i = s2.ctx.sym_range(s2.fresh_name('iter_pos'), 0, 2 ** 32, integer=True)
        v = _elem_value(it2, s2, c2, i)
        cell = s2.new_cell(v)
        s2.last_iter_elem = (c2.term, v, c2.len)
        return some(I.RefV(cell))

    def none_(it2, s2, f2):
        return none()
    n = c.len.const_value() if c.len is not None else None
    if n == 0:
        return ('fork', [(None, none_)])
    if n is None and c.len is not None and not c.extra.get('havocked') and not c.extra.get('pos'):
        # explicit next() on a fresh iterator outside a loop (the "peel the first element" idiom): Some(elem 0) exactly when
        # the sequence is non-empty, and the iterator goes on with the rest of the sequence
        def first_(it2, s2, f2):
            c2 = _cont(it2, s2, it2.operand(s2, f2, t['args'][0]))
            v = _elem_value(it2, s2, c2, ZERO)
            s2.last_iter_elem = (c2.term, v, c2.len)
            c2.term = ('from', c2.term, Poly.const(1))
            c2.len = c2.len - 1
            return some(I.RefV(s2.new_cell(v)))
        return ('fork', [(cmp_term('Gt', c.len, 0), first_), (cmp_term('Eq', c.len, 0), none_)])
    if n is not None and n <= 4 and not c.extra.get('havocked'):
        # short constant-length sequence: deterministic iteration (the loop is unrolled by the interpreter)
        pos = c.extra.get('pos', 0)
        if pos >= n:
            return none()
        c.extra = dict(c.extra)
        c.extra['pos'] = pos + 1
        v = _elem_value(it, st, c, Poly.const(pos))
        st.last_iter_elem = (c.term, v, c.len)
        return some(I.RefV(st.new_cell(v)))
    return ('fork', [(None, some_), (None, none_)])


def m_ref_into_iter(it, st, fr, t, args, ga):
    """<&[T] as IntoIterator>::into_iter / <&Vec as IntoIterator>::into_iter"""
    c = _cont(it, st, args[0])
    return I.ContV('slice_iter', c.term, length=c.len, elem_ty=c.elem_ty, extra=dict(c.extra))


def m_copied(it, st, fr, t, args, ga):
    c = _cont(it, st, args[0])
    ex = dict(c.extra or {})
    ex['by_value'] = True
    return I.ContV(c.kind, c.term, length=c.len, elem_ty=c.elem_ty, extra=ex)


def m_option_map(it, st, fr, t, args, ga):
    e, clo = args[0], args[1]
    v = _known_variant(e)
    if v == 0:
        return none()
    if isinstance(clo, I.ClosureV):
        try:
            probe_state = st.fork()
            it.call_closure(probe_state, clo, [copy.deepcopy(e.payload[1][0])])
        except I.InterpError as ex:
            if 'fork inside closure' not in str(ex):
                raise
            return ('states', [(s2, some(r)) for s2, r in closure_results(it, st, clo, [e.payload[1][0]])])
        return some(it.call_closure(st, clo, [e.payload[1][0]]))
    raise I.InterpError('Option::map with non-closure')


def m_option_copied(it, st, fr, t, args, ga):
    e = args[0]
    v = _known_variant(e)
    if v == 0:
        return none()
    x = e.payload[1][0]
    return some(it.deref(st, x) if isinstance(x, I.RefV) else x)


def m_fold(it, st, fr, t, args, ga):
    """Iterator::fold(iter, init, |acc, elem| ..): exact for short constant-length sequences, otherwise Kleene
    iteration on the range of a numeric accumulator"""
    c = _cont(it, st, args[0])
    acc, clo = args[1], args[2]
    fk = _selection_fn_kind(clo)
    if fk is not None and isinstance(acc, I.Num):
        term = it.fold_term(fk, acc.term, c.term, st.ctx, c.len)
        if term is not None:
            return I.Num(term, acc.ty)
    if not isinstance(clo, I.ClosureV):
        raise I.InterpError('fold with non-closure')
    n = c.len.const_value() if c.len is not None else None
    if n is not None and n <= 8:
        try:
            for i in range(int(n)):
                ev = _elem_value(it, st, c, Poly.const(i))
                acc = it.call_closure(st, clo, [acc, I.RefV(st.new_cell(ev))])
            return acc
        except I.InterpError as e:
            if 'fork inside closure' not in str(e):
                raise
    # additive folds: every numeric leaf of the accumulator (a number, or a private accumulator struct / tuple of numbers) is,
    # after one application of the closure to an arbitrary accumulator and an arbitrary element, either unchanged or
    # `leaf + element`: the result is the initial accumulator with `sum(seq)` added to those leaves - the normal form of
    # Iterator::sum and of the loop reductions (float addition order: init, then the elements in order)
    try:
        import copy as _copy
        from .frozen import _leaves, _set
        leaves = list(_leaves(acc)) if not isinstance(acc, I.Num) else [((), acc)]
        if leaves and all(isinstance(v, I.Num) for _, v in leaves):
            sp = st.fork()
            ev = _elem_value(it, sp, c, sp.ctx.sym_range(sp.fresh_name('i'), 0, 2 ** 32, integer=True))
            if isinstance(ev, I.Num):
                sym_acc = _copy.deepcopy(acc)
                atoms = {}
                for pth, v in leaves:
                    A_ = Poly.atom(('sym', sp.fresh_name('fold_a')))
                    atoms[pth] = A_
                    if pth:
                        _set(sym_acc, pth, I.Num(A_, v.ty))
                    else:
                        sym_acc = I.Num(A_, v.ty)
                plan = None
                for s2, r in closure_results(it, sp, clo, [sym_acc, I.RefV(sp.new_cell(ev))]):
                    rl = dict(_leaves(r)) if not isinstance(r, I.Num) else {(): r}
                    this = {}
                    for pth, A_ in atoms.items():
                        x = rl.get(pth)
                        if not isinstance(x, I.Num):
                            this = None
                            break
                        if x.term == A_:
                            this[pth] = 'keep'
                        elif x.term == A_ + ev.term and x.term != A_:
                            this[pth] = 'sum'
                        else:
                            this = None
                            break
                    if this is None or (plan is not None and this != plan):
                        plan = None
                        break
                    plan = this
                if plan is not None and 'sum' in plan.values():
                    out = _copy.deepcopy(acc)
                    for pth, v in leaves:
                        if plan[pth] == 'sum':
                            nv = I.Num(v.term + t_app('sum', [c.term]), v.ty)
                            if pth:
                                _set(out, pth, nv)
                            else:
                                out = nv
                    return out
    except I.InterpError:
        pass
    if not isinstance(acc, I.Num):
        raise I.InterpError('fold with a non-numeric accumulator over a sequence of unknown length')
    # selection folds: |a, b| max(a, b) / min(a, b) (written with Ord::max, an if, ...) fold to the running max / min over
    # the sequence, in the same normal form as Iterator::max / min and the loop reductions
    try:
        sp = st.fork()
        A = Poly.atom(('sym', sp.fresh_name('fold_a')))
        ev = _elem_value(it, sp, c, sp.ctx.sym_range(sp.fresh_name('i'), 0, 2 ** 32, integer=True))
        if isinstance(ev, I.Num):
            sp.ctx.ranges[A.as_single_atom()] = sp.ctx.rng(ev.term)
            if acc.ty in I.INT_RANGES:
                sp.ctx.int_atoms.add(A.as_single_atom())
            kinds = set()
            for s2, r in closure_results(it, sp, clo, [I.Num(A, acc.ty), I.RefV(sp.new_cell(ev))]):
                if not isinstance(r, I.Num):
                    kinds.add(None)
                elif r.term == t_max(A, ev.term, s2.ctx):
                    kinds.add('max')
                elif r.term == t_min(A, ev.term, s2.ctx):
                    kinds.add('min')
                elif r.term == A:
                    kinds.add('max' if s2.ctx.decide(cmp_term('Le', ev.term, A)) is True else ('min' if s2.ctx.decide(cmp_term('Ge', ev.term, A)) is True else None))
                elif r.term == ev.term:
                    kinds.add('max' if s2.ctx.decide(cmp_term('Ge', ev.term, A)) is True else ('min' if s2.ctx.decide(cmp_term('Le', ev.term, A)) is True else None))
                else:
                    kinds.add(None)
            if len(kinds) == 1 and None not in kinds:
                term = it.fold_term(next(iter(kinds)), acc.term, c.term, st.ctx, c.len)
                if term is not None:
                    return I.Num(term, acc.ty)
    except I.InterpError:
        pass
    cur = st.ctx.rng(acc.term)
    last_outs = []
    for rounds in range(6):
        s1 = st.fork()
        a = ('sym', s1.fresh_name('fold_acc'))
        s1.ctx.ranges[a] = cur
        if acc.ty in I.INT_RANGES:
            s1.ctx.int_atoms.add(a)
        ev = _elem_value(it, s1, c, s1.ctx.sym_range(s1.fresh_name('i'), 0, 2 ** 32, integer=True))
        outs = _closure_outcomes(it, s1, clo, ev, [I.Num(Poly.atom(a), acc.ty)])
        new = cur
        for o in outs:
            rv = o.state.cells.get(o.state.frames[-1].locals.get(0))
            if not isinstance(rv, I.Num):
                raise I.InterpError('fold closure returns %r' % (rv,))
            lo, hi = o.ctx.rng(rv.term)
            nlo, nhi = min(lo, new[0]), max(hi, new[1])
            if rounds >= 3 and acc.ty in I.INT_RANGES:
                tlo, thi = I.INT_RANGES[acc.ty]
                nlo = Fr(tlo) if nlo < new[0] else nlo
                nhi = Fr(thi) if nhi > new[1] else nhi
            new = (nlo, nhi)
        last_outs = outs
        if new == cur:
            break
        cur = new
    seen_keys = {(ob.key, ob.status) for ob in st.obligations}
    for o in last_outs:
        for ob in o.obligations:
            if (ob.key, ob.status) not in seen_keys:
                seen_keys.add((ob.key, ob.status))
                st.obligations.append(ob)
    if n == 0:
        return acc
    a = ('sym', st.fresh_name('after_fold'))
    st.ctx.ranges[a] = cur
    if acc.ty in I.INT_RANGES:
        st.ctx.int_atoms.add(a)
    return I.Num(Poly.atom(a), acc.ty)


def m_slice_index(it, st, fr, t, args, ga):
    c = _cont(it, st, args[0])
    r = args[1]
    if c.len is None:
        # a container whose length the model does not track (e.g. the storage slice of a ring buffer): a fresh length symbol
        c.len = st.ctx.sym_range(st.fresh_name('len'), 0, 2 ** 32, integer=True)
    if isinstance(r, I.Num):
        # slice[i]: bounds obligation + element term
        ok = st.ctx.decide(cmp_term('Lt', r.term, c.len))
        key = 'slice-elem@%s#%s' % (fr.fn['path'], it.site_ordinal(fr, fr.bb))
        detail = 'slice[%r] with len %r' % (r.term, c.len)
        if ok is True:
            st.obligations.append(I.Obligation('bounds', fr.fn['path'], t['span'], detail, 'discharged', key))
        elif ok is False:
            st.obligations.append(I.Obligation('bounds', fr.fn['path'], t['span'], detail, 'violated', key))
            return ('panic', 'index out of bounds')
        else:
            st.obligations.append(I.Obligation('bounds', fr.fn['path'], t['span'], detail, 'unknown', key))
            st.ctx.assume(cmp_term('Lt', r.term, c.len))
        v = _elem_value(it, st, c, r.term)
        return I.RefV(st.new_cell(v))
    if isinstance(r, I.StructV) and r.path.endswith('RangeFrom'):
        start = r.fields[0].term
        ok = st.ctx.decide(cmp_term('Le', start, c.len))
        key = 'slice-index@%s#%s' % (fr.fn['path'], it.site_ordinal(fr, fr.bb))
        lo, hi = st.ctx.rng(start)
        llo, lhi = st.ctx.rng(c.len)
        detail = 'slice[%r..] start in [%s,%s] len in [%s,%s]' % (start, lo, hi, llo, lhi)
        if ok is True:
            st.obligations.append(I.Obligation('slice-index', fr.fn['path'], t['span'], detail, 'discharged', key))
        elif ok is False:
            st.obligations.append(I.Obligation('slice-index', fr.fn['path'], t['span'], detail, 'violated', key))
            return ('panic', 'slice start index out of range')
        else:
            st.obligations.append(I.Obligation('slice-index', fr.fn['path'], t['span'], detail, 'unknown', key))
            st.ctx.assume(cmp_term('Le', start, c.len))
        return I.ContV('slice', ('from', c.term, start), length=c.len - start, elem_ty=c.elem_ty, extra={})
    raise I.InterpError('slice index with %r' % (r,))


# ---------------------------------------------------------------- heapless::HistoryBuffer and iterator adaptors

def m_hist_new(it, st, fr, t, args, ga):
    return I.ContV('hist', ('new',), cap=_cap_from(it, ga, fr), elem_ty=_elem_ty_from(ga), extra={'fill': ZERO})


def m_hist_write(it, st, fr, t, args, ga):
    c = _cont(it, st, args[0])
    c.term = ('write', c.term, _hash_val(it, args[1]))
    fill = c.extra.get('fill') if c.extra else None
    cap = c.cap if c.cap is not None else _cap_from(it, ga, fr)
    if fill is not None and cap is not None:
        c.extra = dict(c.extra)
        c.extra['fill'] = t_min(fill + 1, cap, st.ctx)
    return I.UnitV()


def m_hist_len(it, st, fr, t, args, ga):
    c = _cont(it, st, args[0])
    fill = c.extra.get('fill') if c.extra else None
    if fill is None:
        return it.opaque_result(st, {'k': 'uint', 'n': 'usize', 's': 'usize'}, 'hist_len')
    return I.Num(fill, 'usize')


def m_hist_capacity(it, st, fr, t, args, ga):
    c = _cont(it, st, args[0])
    cap = c.cap if c.cap is not None else _cap_from(it, ga, fr)
    if cap is None:
        raise I.InterpError('HistoryBuffer capacity unknown')
    return I.Num(cap, 'usize')


def _iter_adaptor(name):
    def m(it, st, fr, t, args, ga):
        c = _cont(it, st, args[0])
        rest = tuple(_hash_val(it, a) for a in args[1:])
        if name == 'rev' and c.len is not None:
            ex = dict(c.extra or {})
            ex['rev_of'] = (c.term, c.len)
            return I.ContV('iter', (name, c.term) + rest, length=c.len, elem_ty=c.elem_ty, extra=ex)
        return I.ContV('iter', (name, c.term) + rest, elem_ty=c.elem_ty)
    return m


def m_rev_next(it, st, fr, t, args, ga):
    """next() on a fresh `.rev()` of a sequence: Some(last element) exactly when the sequence is non-empty"""
    c = _cont(it, st, args[0])
    ro = (c.extra or {}).get('rev_of')
    if ro is None or c.extra.get('pos'):
        raise I.InterpError('next on a reversed iterator that was already advanced')
    term, ln = ro
    by_value = bool(c.extra.get('by_value'))

    def some_(it2, s2, f2):
        c2 = _cont(it2, s2, it2.operand(s2, f2, t['args'][0]))
        v = I.Num(elem_term(term, ln - 1, ln, s2.ctx, c2.elem_ty or {'k': 'uint', 'n': 'u8'}), (c2.elem_ty or {}).get('n', 'u8')) \
            if (c2.elem_ty or {'k': 'uint'}).get('k') in ('int', 'uint', 'float') else _elem_value(it2, s2, I.ContV('slice', term, length=ln, elem_ty=c2.elem_ty), ln - 1)
        c2.extra = dict(c2.extra)
        c2.extra['pos'] = 1
        return some(v if by_value else I.RefV(s2.new_cell(v)))
    return ('fork', [(cmp_term('Gt', ln, 0), some_), (cmp_term('Eq', ln, 0), lambda it2, s2, f2: none())])



def m_iter_position(it, st, fr, t, args, ga):
    """Iterator::position / rposition over a slice iterator: None, or Some(i) with 0 <= i < len (which element matched is not
    modelled; an empty sequence only yields None)"""
    c = _cont(it, st, args[0])
    if c.len is None:
        raise I.InterpError('position over a sequence of unknown length')
    states = []
    s0 = st.fork()
    states.append((s0, none()))
    if st.ctx.decide(cmp_term('Gt', c.len, 0)) is not False:
        s1 = st.fork()
        s1.ctx.assume(cmp_term('Gt', c.len, 0))
        i = s1.ctx.sym_range(s1.fresh_name('position'), 0, 2 ** 32, integer=True)
        s1.ctx.assume(cmp_term('Lt', i, c.len))
        states.append((s1, some(I.Num(i, "usize"))))
    return ('states', states)


def m_iter_sum(it, st, fr, t, args, ga):
    c = _cont(it, st, args[0])
    return I.Num(t_app('sum', [c.term]), 'f32')



# ---------------------------------------------------------------- lazy iterator chains

_LAZY_ADAPTORS = {'map': 'map', 'filter': 'filter', 'flat_map': 'flat_map', 'flatten': 'flatten', 'chain': 'chain', 'enumerate': 'enumerate', 'zip': 'zip',
                  'rev': 'same', 'skip': 'same', 'take': 'same', 'step_by': 'same', 'peekable': 'same', 'fuse': 'same', 'copied': 'deref', 'cloned': 'deref',
                  'take_while': 'same', 'skip_while': 'same', 'inspect': 'same', 'by_ref': 'same'}


def _iter_like(it, st, v):
    v = it.deref(st, v) if isinstance(v, I.RefV) else v
    if isinstance(v, (I.LazyIterV, I.ArrV)):
        return True
    if isinstance(v, I.StructV) and v.path.split('::')[-1] in ('Range', 'RangeInclusive'):
        return True
    if isinstance(v, I.EnumV) and v.path.endswith('::Option'):
        return True
    return isinstance(v, I.ContV)


def lazy_iter_model(it, st, cands, args):
    """dispatch hook of the interpreter: `Iterator::<adaptor>` on an iterator-like value builds a LazyIterV as soon as a lazy
    node is involved (closure adaptors, flatten, chain, or an inner lazy value); `next` / `into_iter` on a LazyIterV"""
    if not args:
        return None
    name = cands[0][0].split('::')[-1]
    trait = '::'.join(cands[0][0].split('::')[:-1])
    a0 = it.deref(st, args[0]) if isinstance(args[0], I.RefV) else args[0]
    if isinstance(a0, I.LazyIterV):
        if name == 'sum' and 'Iterator' in trait:
            return m_lazy_sum
        if name == 'next' and 'Iterator' in trait:
            return m_lazy_next
        if name in ('any', 'all') and 'Iterator' in trait:
            return m_lazy_any_all(name)
        if name == 'find' and 'Iterator' in trait and _lazy_all_items(it, st, a0) is not None:
            return m_lazy_find
        if name == 'into_iter':
            return lambda it_, st_, fr_, t_, args_, ga_: args_[0]
    if name == 'find' and 'Iterator' in trait and isinstance(a0, I.ContV) and len(args) == 2 and isinstance(args[1], I.ClosureV) \
            and _lazy_all_items(it, st, a0) is not None:
        return m_lazy_find
    if name in ('into_iter', 'iter') and isinstance(a0, I.ArrV) and a0.items is not None:
        # [a, b, c].into_iter() / .iter(): the array itself stands for its element sequence
        return lambda it_, st_, fr_, t_, args_, ga_: I.LazyIterV('same' if name == 'into_iter' else 'refs', a0)
    if name == 'next' and 'Iterator' in trait and isinstance(a0, I.ContV) and a0.kind == 'iter' and (a0.extra or {}).get('rev_of') is not None:
        return m_rev_next
    if not (trait.endswith('Iterator') and name in _LAZY_ADAPTORS):
        return None
    if not _iter_like(it, st, args[0]):
        return None
    kind = _LAZY_ADAPTORS[name]
    lazy_needed = isinstance(a0, (I.LazyIterV, I.ArrV)) or kind in ('map', 'filter', 'flat_map', 'flatten', 'chain', 'enumerate', 'zip') \
        or (isinstance(a0, I.EnumV))
    if not lazy_needed:
        return None
    if kind in ('map', 'filter', 'flat_map') and not (len(args) > 1 and isinstance(args[1], I.ClosureV)):
        return None

    def build(it_, st_, fr_, t_, args_, ga_):
        inner = args_[0]
        if kind in ('map', 'filter', 'flat_map'):
            return I.LazyIterV(kind, inner, clo=args_[1])
        if kind in ('chain', 'zip'):
            return I.LazyIterV(kind, inner, other=args_[1])
        return I.LazyIterV(kind, inner)
    return build


def _lazy_elems(it, st, v, depth=0):
    """[(state, element)]: every way of picking an arbitrary element of the sequence v (forked states carrying the facts
    that make the pick possible); [] when the sequence is certainly empty"""
    if depth > 8:
        raise I.InterpError('lazy iterator chain too deep')
    v = it.deref(st, v) if isinstance(v, I.RefV) else v
    if isinstance(v, I.StructV) and v.path.split('::')[-1] in ('Range', 'RangeInclusive'):
        incl = v.path.split('::')[-1] == 'RangeInclusive'
        start, end = v.get('start'), v.get('end')
        s2 = st.fork()
        lo_t, hi_t = I.INT_RANGES.get(start.ty, (0, 2 ** 32 - 1))
        x = s2.ctx.sym_range(s2.fresh_name('iter_item'), lo_t, hi_t, integer=True)
        if s2.ctx.assume(cmp_term('Ge', x, start.term)) is False or s2.ctx.assume(cmp_term('Le' if incl else 'Lt', x, end.term)) is False:
            return []
        return [(s2, I.Num(x, start.ty))]
    if isinstance(v, I.ArrV) and v.items is not None:
        return [(st.fork(), copy.deepcopy(x)) for x in v.items]
    if isinstance(v, I.EnumV) and v.path.endswith('::Option'):
        out = []
        poss = [v.variant] if v.variant is not None else (v.possible if v.possible is not None else [0, 1])
        if 1 in poss:
            s2 = st.fork()
            v2 = copy.deepcopy(v)
            if v2.variant is None and hasattr(it, 'refine_enum'):
                it.refine_enum(s2, v2, 1)
            fty = None
            ta = v2.targs
            if isinstance(ta, dict) and ta:
                fty = ta.get('T') or next(iter(ta.values()))
            elif isinstance(ta, list) and ta:
                fty = ta[0].get('ty') if isinstance(ta[0], dict) and 'ty' in ta[0] else ta[0]
            pl = it.enum_payload(s2, v2, 1, fty=fty if isinstance(fty, dict) else None, fidx=0)
            out.append((s2, pl[0]))
        return out
    if isinstance(v, I.ContV):
        if v.len is not None and st.ctx.decide(cmp_term('Eq', v.len, 0)) is True:
            return []
        s2 = st.fork()
        if v.len is not None:
            i = s2.ctx.sym_range(s2.fresh_name('iter_idx'), 0, 2 ** 32, integer=True)
            if s2.ctx.assume(cmp_term('Lt', i, v.len)) is False:
                return []
            return [(s2, _elem_value(it, s2, v, i))]
        return [(s2, it.sym_value(s2, v.elem_ty or {'k': 'uint', 'n': 'u8'}, s2.fresh_name('iter_item')))]
    if isinstance(v, I.LazyIterV):
        k = v.kind
        if k in ('same',):
            return _lazy_elems(it, st, v.inner, depth + 1)
        if k == 'refs':
            return [(s, I.RefV(s.new_cell(x))) for s, x in _lazy_elems(it, st, v.inner, depth + 1)]
        if k == 'deref':
            return [(s, it.deref(s, x) if isinstance(x, I.RefV) else x) for s, x in _lazy_elems(it, st, v.inner, depth + 1)]
        if k == 'enumerate':
            out = []
            for s, x in _lazy_elems(it, st, v.inner, depth + 1):
                i = s.ctx.sym_range(s.fresh_name('enum_idx'), 0, 2 ** 32, integer=True)
                out.append((s, I.TupleV([I.Num(i, 'usize'), x])))
            return out
        if k == 'chain':
            return _lazy_elems(it, st, v.inner, depth + 1) + _lazy_elems(it, st, v.other, depth + 1)
        if k == 'zip':
            out = []
            for s, x in _lazy_elems(it, st, v.inner, depth + 1):
                for s2, y in _lazy_elems(it, s, v.other, depth + 1):
                    out.append((s2, I.TupleV([x, y])))
            return out
        if k == 'map':
            return [(s, it.call_closure(s, v.clo, [x])) for s, x in _lazy_elems(it, st, v.inner, depth + 1)]
        if k == 'filter':
            out = []
            for s, x in _lazy_elems(it, st, v.inner, depth + 1):
                r = it.call_closure(s, v.clo, [I.RefV(s.new_cell(x))])
                if not isinstance(r, I.BoolV):
                    raise I.InterpError('filter predicate is not boolean: %r' % (r,))
                if s.ctx.assume(r.b) is not False:
                    out.append((s, x))
            return out
        if k == 'flatten':
            out = []
            for s, x in _lazy_elems(it, st, v.inner, depth + 1):
                out += _lazy_elems(it, s, x, depth + 1)
            return out
        if k == 'flat_map':
            out = []
            for s, x in _lazy_elems(it, st, v.inner, depth + 1):
                y = it.call_closure(s, v.clo, [x])
                out += _lazy_elems(it, s, y, depth + 1)
            return out
    raise I.InterpError('lazy iterator over %r is not modelled' % (v,))


def m_lazy_next(it, st, fr, t, args, ga):
    v = it.deref(st, args[0])
    states = [(st.fork(), none())]
    for s, x in _lazy_elems(it, st, v):
        states.append((s, some(x)))
        if len(states) > 64:
            raise I.InterpError('lazy iterator yields too many abstract elements')
    return ('states', states)



# ---------------------------------------------------------------- more Option / integer / array vocabulary

CF = 'core::ops::control_flow::ControlFlow'


def m_option_branch(it, st, fr, t, args, ga):
    """<Option<T> as Try>::branch (the `?` operator): Some(x) -> Continue(x), None -> Break(None)"""
    e = args[0]
    v = _known_variant(e)
    if v == 1:
        return I.EnumV(CF, 0, {0: [e.payload[1][0]]}, vnames=['Continue', 'Break'])
    return I.EnumV(CF, 1, {1: [none()]}, vnames=['Continue', 'Break'])


def m_option_from_residual(it, st, fr, t, args, ga):
    return none()


def m_unwrap_or_default(it, st, fr, t, args, ga):
    e = args[0]
    v = _known_variant(e)
    if v == 1 and e.path.endswith('Option'):
        return e.payload[1][0]
    if e.path.endswith('Result'):
        # Result<T, E>::unwrap_or_default: Ok is variant 0
        if v == 0:
            return e.payload[0][0]
    dest_ty = it.local_ty(fr, t['dest'])
    k = dest_ty.get('k')
    if k in ('int', 'uint', 'float'):
        return I.Num(ZERO, dest_ty.get('n'))
    if k == 'bool':
        return I.BoolV(FALSE)
    if k == 'tuple' and not dest_ty.get('tys') and not dest_ty.get('args'):
        return I.UnitV()
    raise I.InterpError('unwrap_or_default for %r' % (dest_ty,))


def m_map_or_else(it, st, fr, t, args, ga):
    e, dclo, clo = args[0], args[1], args[2]
    v = _known_variant(e)
    if v == 0:
        return it.call_closure(st, dclo, []) if isinstance(dclo, I.ClosureV) else _call_fn_value(it, st, dclo, [])
    return it.call_closure(st, clo, [e.payload[1][0]]) if isinstance(clo, I.ClosureV) else _call_fn_value(it, st, clo, [e.payload[1][0]])


def _call_fn_value(it, st, f, argv):
    if isinstance(f, I.FnV) and f.path in it.facts.fns:
        return it.call_fn_sync(st, f.path, argv)
    raise I.InterpError('call of function value %r is not modelled' % (f,))


def m_unwrap_or_else(it, st, fr, t, args, ga):
    e, clo = args[0], args[1]
    v = _known_variant(e)
    if v == 1:
        return e.payload[1][0]
    return it.call_closure(st, clo, []) if isinstance(clo, I.ClosureV) else _call_fn_value(it, st, clo, [])


def m_is_some_and(it, st, fr, t, args, ga):
    e, clo = args[0], args[1]
    v = _known_variant(e)
    if v == 0:
        return I.BoolV(FALSE)
    return it.call_closure(st, clo, [e.payload[1][0]])


def m_option_and_then(it, st, fr, t, args, ga):
    e, clo = args[0], args[1]
    v = _known_variant(e)
    if v == 0:
        return none()
    return it.call_closure(st, clo, [e.payload[1][0]])


def m_option_ok_or(it, st, fr, t, args, ga):
    e = args[0]
    v = _known_variant(e)
    if v == 1:
        return I.EnumV('core::result::Result', 0, {0: [e.payload[1][0]]}, vnames=['Ok', 'Err'])
    return I.EnumV('core::result::Result', 1, {1: [args[1]]}, vnames=['Ok', 'Err'])


def m_result_ok(it, st, fr, t, args, ga):
    e = args[0]
    v = _known_variant(e)
    return some(e.payload[0][0]) if v == 0 else none()


def m_div_euclid(it, st, fr, t, args, ga):
    a, b = _num(args[0]), _num(args[1])
    if st.ctx.rng(a.term)[0] >= 0 and st.ctx.rng(b.term)[0] > 0:
        return I.Num(t_idiv(a.term, b.term, st.ctx), a.ty)
    return it.opaque_result(st, {'k': 'uint', 'n': a.ty, 's': a.ty}, 'div_euclid')


def m_rem_euclid(it, st, fr, t, args, ga):
    a, b = _num(args[0]), _num(args[1])
    if st.ctx.rng(a.term)[0] >= 0 and st.ctx.rng(b.term)[0] > 0:
        return I.Num(t_mod(a.term, b.term, st.ctx), a.ty)
    return it.opaque_result(st, {'k': 'uint', 'n': a.ty, 's': a.ty}, 'rem_euclid')


def m_int_pow(it, st, fr, t, args, ga):
    a, b = _num(args[0]), _num(args[1])
    ac, bc = a.term.const_value(), b.term.const_value()
    if ac is not None and bc is not None and bc >= 0 and bc == int(bc):
        r = ac ** int(bc)
        lo, hi = _int_bounds(a)
        key = 'overflow:Pow@%s#%s' % (fr.fn['path'], it.site_ordinal(fr, fr.bb))
        ok = lo <= r <= hi
        st.obligations.append(I.Obligation('overflow:Pow', fr.fn['path'], t.get('span', ''), '%s.pow(%s)' % (ac, bc), 'discharged' if ok else 'violated', key))
        if not ok:
            return ('panic', 'attempt to multiply with overflow')
        return I.Num(Poly.const(r), a.ty)
    if ac == 2 and bc is None:
        blo, bhi = st.ctx.rng(b.term)
        if blo >= 0 and bhi <= 62:
            return I.Num(t_shl(ONE, b.term, st.ctx), a.ty)
    return it.opaque_result(st, {'k': 'uint', 'n': a.ty, 's': a.ty}, 'pow')


def m_int_clamp(it, st, fr, t, args, ga):
    x, lo, hi = _num(args[0]), _num(args[1]), _num(args[2])
    ok = st.ctx.decide(cmp_term('Le', lo.term, hi.term))
    key = 'panic@%s#%s' % (fr.fn['path'], it.site_ordinal(fr, fr.bb))
    st.obligations.append(I.Obligation('panic-call', fr.fn['path'], t.get('span', ''), 'clamp: min <= max', 'discharged' if ok is True else ('violated' if ok is False else 'unknown'), key))
    if ok is False:
        return ('panic', 'assertion failed: min <= max')
    return I.Num(t_min(t_max(x.term, lo.term, st.ctx, 'max'), hi.term, st.ctx, 'min'), x.ty)


def m_checked_ilog2(it, st, fr, t, args, ga):
    a = _num(args[0])
    c = a.term.const_value()
    if c is not None:
        return some(I.Num(Poly.const(int(c).bit_length() - 1), 'u32')) if c > 0 else none()
    lo, hi = st.ctx.rng(a.term)

    def some_(it2, s2, f2):
        r = s2.ctx.sym_range(s2.fresh_name('ilog2'), 0 if lo < 1 else int(lo).bit_length() - 1, 63 if hi == INF else max(int(hi).bit_length() - 1, 0), integer=True)
        return some(I.Num(r, 'u32'))
    return ('fork', [(cmp_term('Gt', a.term, 0), some_), (cmp_term('Le', a.term, 0), lambda it2, s2, f2: none())])


def m_array_map(it, st, fr, t, args, ga):
    arr, clo = args[0], args[1]
    if not isinstance(arr, I.ArrV) or arr.items is None or not isinstance(clo, I.ClosureV):
        raise I.InterpError('array::map on %r' % (arr,))
    return I.ArrV(items=[it.call_closure(st, clo, [copy.deepcopy(x)]) for x in arr.items])


def m_iter_once(it, st, fr, t, args, ga):
    return I.LazyIterV('same', I.ArrV(items=[args[0]]))


def m_option_into_iter(it, st, fr, t, args, ga):
    e = args[0]
    e = it.deref(st, e) if isinstance(e, I.RefV) else e
    return I.LazyIterV('same', e)


def m_slice_windows(it, st, fr, t, args, ga):
    src = args[0]
    src = it.deref(st, src) if isinstance(src, I.RefV) else src
    size = _num(args[1]).term.const_value()
    if size is None:
        raise I.InterpError('windows with a symbolic size')
    if isinstance(src, I.ArrV) and src.table:
        n = len(it.facts.tables.get(src.table) or [])
        return I.ContV('windows', ('tblwin', src.table), length=Poly.const(max(n - int(size) + 1, 0)), extra={'table': src.table, 'size': int(size)})
    c = _cont(it, st, src)
    return I.ContV('windows', ('win', c.term), length=c.len - (int(size) - 1), elem_ty=c.elem_ty, extra={'of': c, 'size': int(size)})


def m_windows_nth(it, st, fr, t, args, ga):
    w = it.deref(st, args[0]) if isinstance(args[0], I.RefV) else args[0]
    if not isinstance(w, I.ContV) or w.kind != 'windows':
        raise I.InterpError('nth on %r is not modelled' % (w,))
    i = _num(args[1])
    size = w.extra['size']

    def some_(it2, s2, f2):
        if 'table' in w.extra:
            items = [I.Num(t_tbl(w.extra['table'], i.term + k, s2.ctx), 'f32') for k in range(size)]
            return some(I.RefV(s2.new_cell(I.ArrV(items=items))))
        c = w.extra['of']
        view = I.ContV('slice', ('from', c.term, i.term), length=Poly.const(size), elem_ty=c.elem_ty, extra={})
        return some(I.RefV(s2.new_cell(view)))
    return ('fork', [(cmp_term('Lt', i.term, w.len), some_), (cmp_term('Ge', i.term, w.len), lambda it2, s2, f2: none())])



def _lazy_all_items(it, st, v, depth=0):
    """the complete item list of a lazy chain over explicit small sources (arrays, `once`, known Options), or None"""
    v = it.deref(st, v) if isinstance(v, I.RefV) else v
    if depth > 6:
        return None
    if isinstance(v, I.ArrV) and v.items is not None and len(v.items) <= 8:
        return list(v.items)
    if isinstance(v, I.ContV) and v.kind == 'slice_iter' and isinstance((v.extra or {}).get('items'), list) and len(v.extra['items']) <= 8 \
            and not v.extra.get('havocked') and not v.extra.get('pos'):
        # `TABLE.iter()` over a literal / constant array: references to its elements, in order
        return [I.RefV(st.new_cell(copy.deepcopy(x))) for x in v.extra['items']]
    if isinstance(v, I.EnumV) and v.path.endswith('::Option') and v.variant is not None:
        return [v.payload[1][0]] if v.variant == 1 else []
    if isinstance(v, I.LazyIterV):
        if v.kind == 'same':
            return _lazy_all_items(it, st, v.inner, depth + 1)
        if v.kind == 'refs':
            a = _lazy_all_items(it, st, v.inner, depth + 1)
            return None if a is None else [I.RefV(st.new_cell(copy.deepcopy(x))) for x in a]
        if v.kind == 'chain':
            a, b = _lazy_all_items(it, st, v.inner, depth + 1), _lazy_all_items(it, st, v.other, depth + 1)
            return None if a is None or b is None else a + b
        if v.kind == 'map':
            a = _lazy_all_items(it, st, v.inner, depth + 1)
            return None if a is None else [it.call_closure(st, v.clo, [copy.deepcopy(x)]) for x in a]
    return None


def m_lazy_find(it, st, fr, t, args, ga):
    """Iterator::find over an explicit short sequence (a constant table, `[a, b, c].iter()`): the first item the predicate
    accepts, following every branch of the predicate"""
    v = it.deref(st, args[0]) if isinstance(args[0], I.RefV) else args[0]
    items = _lazy_all_items(it, st, v)
    clo = args[1]
    if items is None or not isinstance(clo, I.ClosureV):
        raise I.InterpError('find over %r is not modelled' % (v,))
    done, states = [], [st.fork()]
    for x in items:
        nxt = []
        for s_ in states:
            arg = I.RefV(s_.new_cell(copy.deepcopy(x)))
            for s2, r in closure_results(it, s_, clo, [arg]):
                if not isinstance(r, I.BoolV):
                    raise I.InterpError('find predicate is not boolean')
                d = s2.ctx.decide(r.b)
                if d is True:
                    done.append((s2, some(copy.deepcopy(x))))
                elif d is False:
                    nxt.append(s2)
                else:
                    s3 = s2.fork()
                    if s3.ctx.assume(r.b) is not False:
                        done.append((s3, some(copy.deepcopy(x))))
                    if s2.ctx.assume(bnot(r.b)) is not False:
                        nxt.append(s2)
        states = nxt
    return ('states', done + [(s_, none()) for s_ in states])


def m_lazy_any_all(kind):
    def m(it, st, fr, t, args, ga):
        v = it.deref(st, args[0]) if isinstance(args[0], I.RefV) else args[0]
        items = _lazy_all_items(it, st, v)
        clo = args[1]
        if items is None or not isinstance(clo, I.ClosureV):
            raise I.InterpError('%s over %r is not modelled' % (kind, v))
        # fold the predicate over the explicit items, following every branch of the predicate
        states = [(st.fork(), FALSE if kind == 'any' else TRUE)]
        for x in items:
            nxt = []
            for s_, acc in states:
                for s2, r in closure_results(it, s_, clo, [copy.deepcopy(x)]):
                    if not isinstance(r, I.BoolV):
                        raise I.InterpError('%s predicate is not boolean' % kind)
                    nxt.append((s2, bor(acc, r.b) if kind == 'any' else band(acc, r.b)))
            states = nxt
        return ('states', [(s_, I.BoolV(b)) for s_, b in states])
    return m



def m_int_try_from(it, st, fr, t, args, ga):
    """<uN as TryFrom<uM>>::try_from / try_into between integer types: Ok(x) when x fits the target, Err otherwise"""
    x = _num(args[0])
    dest_ty = it.local_ty(fr, t['dest'])
    tgt = None
    for a in dest_ty.get('args', []):
        if isinstance(a, dict) and 'ty' in a and a['ty'].get('k') in ('int', 'uint'):
            tgt = a['ty'].get('n')
            break
    if tgt not in I.INT_RANGES:
        raise I.InterpError('try_from into %r' % (dest_ty,))
    lo, hi = I.INT_RANGES[tgt]
    fits = band(cmp_term('Ge', x.term, lo), cmp_term('Le', x.term, hi))
    ok = lambda it2, s2, f2: I.EnumV('core::result::Result', 0, {0: [I.Num(x.term, tgt)]}, vnames=['Ok', 'Err'])
    err = lambda it2, s2, f2: I.EnumV('core::result::Result', 1, {1: [I.Opaque('TryFromIntError', 'err')]}, vnames=['Ok', 'Err'])
    return ('fork', [(fits, ok), (bnot(fits), err)])


def m_enum_eq(negate):
    def m(it, st, fr, t, args, ga):
        a = it.deref(st, args[0]) if isinstance(args[0], I.RefV) else args[0]
        b = it.deref(st, args[1]) if isinstance(args[1], I.RefV) else args[1]
        va, vb = _known_variant(a), _known_variant(b)
        if va != vb:
            r = FALSE
        else:
            pa, pb = a.payload.get(va) or [], b.payload.get(vb) or []
            r = TRUE
            for x, y in zip(pa, pb):
                if isinstance(x, I.Num) and isinstance(y, I.Num):
                    r = band(r, cmp_term('Eq', x.term, y.term))
                elif isinstance(x, I.BoolV) and isinstance(y, I.BoolV):
                    r = band(r, bor(band(x.b, y.b), band(bnot(x.b), bnot(y.b))))
                elif isinstance(x, I.Opaque) and isinstance(y, I.Opaque):
                    continue        # unit-like error payloads
                else:
                    raise I.InterpError('equality of %r and %r is not modelled' % (x, y))
        return I.BoolV(bnot(r) if negate else r)
    return m



def m_lazy_sum(it, st, fr, t, args, ga):
    """sum over `(0..n).zip(X).map(|(_, x)| x)`: the first n items of X, i.e. the same term as `X.take(n).sum()`"""
    v = it.deref(st, args[0]) if isinstance(args[0], I.RefV) else args[0]
    if isinstance(v, I.LazyIterV) and v.kind == 'map' and isinstance(v.inner, I.LazyIterV) and v.inner.kind == 'zip':
        a, b = v.inner.inner, v.inner.other
        a = it.deref(st, a) if isinstance(a, I.RefV) else a
        b = it.deref(st, b) if isinstance(b, I.RefV) else b
        rng, seq = (a, b) if isinstance(b, I.ContV) else (b, a)
        if isinstance(rng, I.StructV) and rng.path.split('::')[-1] == 'Range' and isinstance(seq, I.ContV) \
                and rng.get('start').term == ZERO:
            sp = st.fork()
            i = I.Num(sp.ctx.sym_range(sp.fresh_name('zip_i'), 0, 2 ** 32, integer=True), 'usize')
            x = it.sym_value(sp, seq.elem_ty or {'k': 'float', 'n': 'f32'}, sp.fresh_name('zip_x'))
            xr = x if (seq.extra or {}).get('by_value') else I.RefV(sp.new_cell(x))
            pair = I.TupleV([i, xr] if rng is a else [xr, i])
            r = it.call_closure(sp, v.clo, [pair])
            r = it.deref(sp, r) if isinstance(r, I.RefV) else r
            if isinstance(r, I.Num) and isinstance(x, I.Num) and r.term == x.term:
                n = rng.get('end').term
                return m_iter_sum(it, st, fr, t, [I.ContV('iter', ('take', seq.term, n), elem_ty=seq.elem_ty)], ga)
    raise I.InterpError('sum over %r is not modelled' % (v,))


_NORM = [
    ('core::iter::traits::iterator::Iterator', 'core::iter::Iterator'),
    ('core::iter::traits::collect::IntoIterator', 'core::iter::IntoIterator'),
    ('core::iter::traits::double_ended::DoubleEndedIterator', 'core::iter::DoubleEndedIterator'),
    ('core::ops::deref::Deref', 'core::ops::Deref'),
    ('core::ops::index::Index', 'core::ops::Index'),
    ('core::ops::range::', 'core::ops::'),
    ('core::ops::function::', 'core::ops::'),
    ('core::slice::iter::Iter', 'core::slice::Iter'),
    ('core::f32::<impl f32>', 'core::f32::<impl f32>'),
]


def norm(path):
    for a, b in _NORM:
        path = path.replace(a, b)
    return path


def m_checked(op):
    def m(it, st, fr, t, args, ga):
        a, b = _num(args[0]), _num(args[1])
        lo, hi = _int_bounds(a)
        r = {'add': a.term + b.term, 'sub': a.term - b.term, 'mul': a.term * b.term}[op]
        parts = []
        for cnd in (cmp_term('Ge', r, lo), cmp_term('Le', r, hi)):
            d = st.ctx.decide(cnd)
            if d is False:
                return none()
            if d is None:
                parts.append(cnd)
        if not parts:
            return some(I.Num(r, a.ty))
        inb = parts[0] if len(parts) == 1 else band(parts[0], parts[1])
        return ('fork', [(inb, some(I.Num(r, a.ty))), (bnot(inb), none())])
    return m


def m_recip(it, st, fr, t, args, ga):
    x = _num(args[0])
    return I.Num(t_div(ONE, x.term, st.ctx), x.ty)


def m_float_to_bits(it, st, fr, t, args, ga):
    """f32::to_bits: an injective function of the float; the only fact used is 'equal bits => equal value' (see Interp.binop)"""
    x = _num(args[0])
    c = x.term.const_value()
    if c is not None and x.ty == 'f32':
        import struct
        try:
            return I.Num(Poly.const(struct.unpack('<I', struct.pack('<f', float(c)))[0]), 'u32')
        except (OverflowError, struct.error):
            pass
    r = t_app('float_bits', [x.term])
    a = r.as_single_atom()
    bits = 32 if x.ty == 'f32' else 64
    st.ctx.ranges[a] = (Fr(0), Fr(2 ** bits - 1))
    st.ctx.int_atoms.add(a)
    return I.Num(r, 'u32' if bits == 32 else 'u64')


def m_mul_add(it, st, fr, t, args, ga):
    a, b, c = _num(args[0]), _num(args[1]), _num(args[2])
    return I.Num(a.term * b.term + c.term, a.ty)


def m_map_or(it, st, fr, t, args, ga):
    e, d, clo = args[0], args[1], args[2]
    v = _known_variant(e)
    if v == 0:
        return d
    if isinstance(clo, I.ClosureV):
        return it.call_closure(st, clo, [e.payload[1][0]])
    raise I.InterpError('map_or with non-closure')


def m_bool_then(it, st, fr, t, args, ga):
    """bool::then(f): Some(f()) when the receiver is true, None otherwise (the closure only runs on the true side)"""
    b, clo = args[0], args[1]
    if not isinstance(b, I.BoolV) or not isinstance(clo, I.ClosureV):
        raise I.InterpError('bool::then on %r' % (b,))

    def yes(it2, s2, f2):
        return some(it2.call_closure(s2, clo, []))

    def no(it2, s2, f2):
        return none()
    return ('fork', [(b.b, yes), (bnot(b.b), no)])


def m_bool_then_some(it, st, fr, t, args, ga):
    b, v = args[0], args[1]
    if not isinstance(b, I.BoolV):
        raise I.InterpError('bool::then_some on %r' % (b,))
    return ('fork', [(b.b, lambda it2, s2, f2: some(v)), (bnot(b.b), lambda it2, s2, f2: none())])


def _ordering(i):
    return I.EnumV('core::cmp::Ordering', i, {i: []}, vnames=['Less', 'Equal', 'Greater'])


def m_f_partial_cmp(it, st, fr, t, args, ga):
    """<f32 as PartialOrd>::partial_cmp: Some(Less|Equal|Greater); None when an operand is NaN"""
    a = it.deref(st, args[0]) if isinstance(args[0], I.RefV) else args[0]
    b = it.deref(st, args[1]) if isinstance(args[1], I.RefV) else args[1]
    if not isinstance(a, I.Num) or not isinstance(b, I.Num):
        raise I.InterpError('partial_cmp on %r, %r' % (a, b))
    if a.term.is_nan() or b.term.is_nan():
        return none()
    return ('fork', [(cmp_term('Lt', a.term, b.term), lambda it2, s2, f2: some(_ordering(0))),
                     (cmp_term('Eq', a.term, b.term), lambda it2, s2, f2: some(_ordering(1))),
                     (cmp_term('Gt', a.term, b.term), lambda it2, s2, f2: some(_ordering(2)))])


def m_is_some(it, st, fr, t, args, ga):
    e = it.deref(st, args[0]) if isinstance(args[0], I.RefV) else args[0]
    return I.BoolV(bconst(_known_variant(e) == 1))


def m_is_none(it, st, fr, t, args, ga):
    e = it.deref(st, args[0]) if isinstance(args[0], I.RefV) else args[0]
    return I.BoolV(bconst(_known_variant(e) == 0))


def registry():
    R = {
        'core::f32::<impl f32>::max': m_fmax,
        'core::f32::<impl f32>::min': m_fmin,
        'core::f32::<impl f32>::clamp': m_fclamp,
        'core::f32::<impl f32>::abs': m_fabs,
        'core::cmp::Ord::min': m_imin,
        'core::cmp::Ord::max': m_imax,
        'core::cmp::min': m_imin,
        'core::cmp::Ord::clamp': m_iclamp,
        'core::cmp::max': m_imax,
        'core::num::<impl u8>::saturating_sub': m_saturating_sub,
        'core::num::<impl u8>::saturating_add': m_saturating_add,
        'core::num::<impl u8>::wrapping_add': _wrapping('add'),
        'core::num::<impl u8>::wrapping_sub': _wrapping('sub'),
        'core::num::<impl u8>::wrapping_mul': _wrapping('mul'),
        'core::num::<impl u16>::saturating_sub': m_saturating_sub,
        'core::num::<impl u16>::saturating_add': m_saturating_add,
        'core::num::<impl u16>::wrapping_add': _wrapping('add'),
        'core::num::<impl u16>::wrapping_sub': _wrapping('sub'),
        'core::num::<impl u16>::wrapping_mul': _wrapping('mul'),
        'core::num::<impl u32>::saturating_sub': m_saturating_sub,
        'core::num::<impl u32>::saturating_add': m_saturating_add,
        'core::num::<impl u32>::wrapping_add': _wrapping('add'),
        'core::num::<impl u32>::wrapping_sub': _wrapping('sub'),
        'core::num::<impl u32>::wrapping_mul': _wrapping('mul'),
        'core::num::<impl u64>::saturating_sub': m_saturating_sub,
        'core::num::<impl u64>::saturating_add': m_saturating_add,
        'core::num::<impl u64>::wrapping_add': _wrapping('add'),
        'core::num::<impl u64>::wrapping_sub': _wrapping('sub'),
        'core::num::<impl u64>::wrapping_mul': _wrapping('mul'),
        'core::num::<impl usize>::saturating_sub': m_saturating_sub,
        'core::num::<impl usize>::saturating_add': m_saturating_add,
        'core::num::<impl usize>::wrapping_add': _wrapping('add'),
        'core::num::<impl usize>::wrapping_sub': _wrapping('sub'),
        'core::num::<impl usize>::wrapping_mul': _wrapping('mul'),
        'core::num::<impl i16>::saturating_sub': m_saturating_sub,
        'core::num::<impl i16>::saturating_add': m_saturating_add,
        'core::num::<impl i16>::wrapping_add': _wrapping('add'),
        'core::num::<impl i16>::wrapping_sub': _wrapping('sub'),
        'core::num::<impl i16>::wrapping_mul': _wrapping('mul'),
        'core::num::<impl i32>::saturating_sub': m_saturating_sub,
        'core::num::<impl i32>::saturating_add': m_saturating_add,
        'core::num::<impl i32>::wrapping_add': _wrapping('add'),
        'core::num::<impl i32>::wrapping_sub': _wrapping('sub'),
        'core::num::<impl i32>::wrapping_mul': _wrapping('mul'),
        'core::cmp::PartialEq::ne': m_partial_ne,
        'core::f32::<impl f32>::is_finite': _float_pred('is_finite', {'nan': False, 'inf': False, 'finite': True}),
        'core::f32::<impl f32>::is_nan': _float_pred('is_nan', {'nan': True, 'inf': False, 'finite': False}),
        'core::f32::<impl f32>::is_infinite': _float_pred('is_infinite', {'nan': False, 'inf': True, 'finite': False}),
        'core::num::<impl u8>::abs_diff': m_abs_diff,
        'core::num::<impl u16>::abs_diff': m_abs_diff,
        'core::num::<impl u32>::abs_diff': m_abs_diff,
        'core::num::<impl u64>::abs_diff': m_abs_diff,
        'core::num::<impl usize>::abs_diff': m_abs_diff,
        'core::num::<impl u8>::checked_add': m_checked('add'),
        'core::num::<impl u8>::checked_sub': m_checked('sub'),
        'core::num::<impl u8>::checked_mul': m_checked('mul'),
        'core::num::<impl u16>::checked_add': m_checked('add'),
        'core::num::<impl u16>::checked_sub': m_checked('sub'),
        'core::num::<impl u16>::checked_mul': m_checked('mul'),
        'core::num::<impl u32>::checked_add': m_checked('add'),
        'core::num::<impl u32>::checked_sub': m_checked('sub'),
        'core::num::<impl u32>::checked_mul': m_checked('mul'),
        'core::num::<impl u64>::checked_add': m_checked('add'),
        'core::num::<impl u64>::checked_sub': m_checked('sub'),
        'core::num::<impl u64>::checked_mul': m_checked('mul'),
        'core::num::<impl usize>::checked_add': m_checked('add'),
        'core::num::<impl usize>::checked_sub': m_checked('sub'),
        'core::num::<impl usize>::checked_mul': m_checked('mul'),
        'core::num::<impl i16>::checked_add': m_checked('add'),
        'core::num::<impl i16>::checked_sub': m_checked('sub'),
        'core::num::<impl i16>::checked_mul': m_checked('mul'),
        'core::num::<impl i32>::checked_add': m_checked('add'),
        'core::num::<impl i32>::checked_sub': m_checked('sub'),
        'core::num::<impl i32>::checked_mul': m_checked('mul'),
        'core::f32::<impl f32>::to_bits': m_float_to_bits,
        'core::f64::<impl f64>::to_bits': m_float_to_bits,
        'core::f32::<impl f32>::recip': m_recip,
        'core::f32::<impl f32>::mul_add': m_mul_add,
        'core::option::Option::<T>::map_or_else': m_map_or_else,
        'core::option::Option::<T>::unwrap_or_default': m_unwrap_or_default,
        'core::result::Result::<T, E>::unwrap_or_default': m_unwrap_or_default,
        'core::option::Option::<T>::unwrap_or_else': m_unwrap_or_else,
        'core::option::Option::<T>::is_some_and': m_is_some_and,
        'core::option::Option::<T>::and_then': m_option_and_then,
        'core::option::Option::<T>::ok_or': m_option_ok_or,
        'core::result::Result::<T, E>::ok': m_result_ok,
        '<core::option::Option<T> as core::ops::Try>::branch': m_option_branch,
        '<core::option::Option<T> as core::ops::try_trait::Try>::branch': m_option_branch,
        '<core::option::Option<T> as core::ops::FromResidual<core::option::Option<core::convert::Infallible>>>::from_residual': m_option_from_residual,
        '<core::option::Option<T> as core::ops::try_trait::FromResidual<core::option::Option<core::convert::Infallible>>>::from_residual': m_option_from_residual,
        'core::array::<impl [T; N]>::map': m_array_map,
        'core::iter::once': m_iter_once,
        'core::iter::sources::once::once': m_iter_once,
        '<core::option::Option<T> as core::iter::IntoIterator>::into_iter': m_option_into_iter,
        'core::option::Option::<T>::iter': m_option_into_iter,
        'core::slice::<impl [T]>::windows': m_slice_windows,
        "<core::slice::Windows<'a, T> as core::iter::Iterator>::nth": m_windows_nth,
        "<core::slice::iter::Windows<'a, T> as core::iter::Iterator>::nth": m_windows_nth,
        'core::option::Option::<T>::map_or': m_map_or,
        'core::option::Option::<T>::is_some': m_is_some,
        'core::option::Option::<T>::is_none': m_is_none,
        'core::convert::Into::into': m_identity,
        '<T as core::convert::Into<U>>::into': m_identity,
        '<T as core::convert::From<T>>::from': m_identity,
        'core::intrinsics::discriminant_value': m_discriminant_value,
        'core::panicking::panic': m_panic,
        'core::panicking::panic_fmt': m_panic,
        'core::panicking::panic_explicit': m_panic,
        'core::panicking::unreachable_display': m_panic,
        'libm::F32Ext::tan': m_tan,
        '<f32 as libm::F32Ext>::tan': m_tan,
        'core::mem::replace': m_mem_replace,
        'core::mem::take': m_mem_take,
        'core::bool::<impl bool>::then': m_bool_then,
        'core::bool::<impl bool>::then_some': m_bool_then_some,
        'core::f32::<impl core::cmp::PartialOrd for f32>::partial_cmp': m_f_partial_cmp,
        '<f32 as core::cmp::PartialOrd>::partial_cmp': m_f_partial_cmp,
        'core::cmp::impls::<impl core::cmp::PartialOrd for f32>::partial_cmp': m_f_partial_cmp,
        'core::cmp::impls::<impl core::cmp::PartialOrd for f64>::partial_cmp': m_f_partial_cmp,
        'core::option::Option::<T>::unwrap_or': m_unwrap_or,
        'core::option::Option::<T>::unwrap': m_option_unwrap,
        'core::result::Result::<T, E>::ok': m_result_ok,
        'core::result::Result::<T, E>::unwrap': m_result_unwrap,
        'heapless::vec::Vec::<T, N>::new': m_vec_new,
        'heapless::vec::Vec::<T, N>::push': m_vec_push,
        'heapless::vec::Vec::<T, N>::len': m_vec_len,
        'heapless::vec::Vec::<T, N>::is_empty': m_vec_is_empty,
        'heapless::vec::Vec::<T, N>::clear': m_vec_clear,
        'heapless::vec::Vec::<T, N>::remove': m_vec_remove,
        'heapless::vec::Vec::<T, N>::is_full': m_vec_is_full,
        'heapless::vec::Vec::<T, N>::retain': m_vec_retain,
        '<heapless::vec::Vec<T, N> as core::ops::Deref>::deref': m_vec_deref,
        '<heapless::vec::Vec<T, N> as core::iter::IntoIterator>::into_iter': m_vec_into_iter,
        '<heapless::vec::IntoIter<T, N> as core::iter::Iterator>::next': m_vec_iter_next,
        '<I as core::iter::IntoIterator>::into_iter': m_identity,
        'core::iter::range::<impl core::iter::Iterator for core::ops::Range<A>>::next': m_range_next,
        'core::slice::<impl [T]>::len': m_slice_len,
        'core::slice::<impl [T]>::is_empty': m_slice_is_empty,
        'core::slice::<impl [T]>::contains': m_slice_contains,
        'core::slice::<impl [T]>::iter': m_slice_iter,
        'core::slice::<impl [T]>::last': m_slice_last,
        'core::slice::<impl [T]>::first': m_slice_first,
        'core::slice::<impl [T]>::split_first': _m_slice_split('split_first'),
        'core::slice::<impl [T]>::split_last': _m_slice_split('split_last'),
        'core::iter::Iterator::max': m_iter_max,
        'core::iter::Iterator::reduce': m_iter_reduce,
        'core::slice::<impl [T]>::get': m_slice_get,
        'core::option::Option::<&T>::copied': m_option_copied,
        'core::option::Option::<&T>::cloned': m_option_copied,
        'core::slice::from_ref': m_slice_from_ref,
        'core::slice::raw::from_ref': m_slice_from_ref,
        'core::iter::Iterator::min': m_iter_min,
        "<core::slice::Iter<'a, T> as core::iter::Iterator>::for_each": m_for_each,
        'core::iter::Iterator::for_each': m_for_each,
        'core::slice::index::<impl core::ops::Index<I> for [T]>::index': m_slice_index,
        'core::ops::RangeInclusive::<Idx>::new': m_range_incl_new,
        'core::iter::range::<impl core::iter::Iterator for core::ops::RangeInclusive<A>>::next': m_range_incl_next,
        "<core::slice::Iter<'a, T> as core::iter::Iterator>::next": m_slice_iter_next,
        "<heapless::histbuf::OldestOrdered<'a, T, N> as core::iter::Iterator>::next": m_slice_iter_next,
        "core::slice::iter::<impl core::iter::IntoIterator for &'a [T]>::into_iter": m_ref_into_iter,
        "<&'a [T] as core::iter::IntoIterator>::into_iter": m_ref_into_iter,
        'heapless::histbuf::HistoryBuffer::<T, N>::new': m_hist_new,
        'heapless::histbuf::HistoryBuffer::<T, N>::write': m_hist_write,
        'heapless::histbuf::HistoryBuffer::<T, N>::capacity': m_hist_capacity,
        'heapless::histbuf::HistoryBuffer::<T, N>::len': m_hist_len,
        'heapless::histbuf::HistoryBuffer::<T, N>::oldest_ordered': _iter_adaptor('oldest_ordered'),
        'heapless::histbuf::HistoryBuffer::<T, N>::as_slice': _iter_adaptor('as_slice'),
        'heapless::histbuf::HistoryBuffer::<T, N>::recent': _iter_adaptor('recent'),
        'core::iter::Iterator::take': _iter_adaptor('take'),
        'core::iter::Iterator::skip': _iter_adaptor('skip'),
        'core::iter::Iterator::rev': _iter_adaptor('rev'),
        'core::iter::Iterator::sum': m_iter_sum,
        'core::iter::Iterator::count': m_iter_count,
        '<core::result::Result<T, E> as core::cmp::PartialEq>::eq': m_enum_eq(False),
        '<core::result::Result<T, E> as core::cmp::PartialEq>::ne': m_enum_eq(True),
        '<core::option::Option<T> as core::cmp::PartialEq>::eq': m_enum_eq(False),
        '<core::option::Option<T> as core::cmp::PartialEq>::ne': m_enum_eq(True),
        'core::iter::Iterator::position': m_iter_position,
        "<core::slice::Iter<'a, T> as core::iter::Iterator>::position": m_iter_position,
        'core::iter::DoubleEndedIterator::rposition': m_iter_position,
        'core::iter::Iterator::fold': m_fold,
        'core::iter::Iterator::copied': m_copied,
        'core::iter::Iterator::cloned': m_copied,
        'core::option::Option::<T>::map': m_option_map,
        'core::option::Option::<T>::filter': m_option_filter,
        'core::option::Option::<&T>::copied': m_option_copied,
        'core::option::Option::<&T>::cloned': m_option_copied,
        'heapless::vec::Vec::<T, N>::as_slice': m_vec_deref,
        'heapless::vec::Vec::<T, N>::is_full': m_vec_is_full,
        'heapless::vec::Vec::<T, N>::capacity': m_vec_capacity,
        'heapless::vec::Vec::<T, N>::remove': m_vec_remove,
        'heapless::vec::Vec::<T, N>::pop': m_vec_pop,
        'core::ops::RangeInclusive::<Idx>::contains': m_range_contains,
        'core::ops::Range::<Idx>::contains': m_range_contains,
        'heapless::vec::Vec::<T, N>::iter': m_vec_deref,
        "<core::slice::Iter<'a, T> as core::iter::Iterator>::fold": m_fold,
    }
    # the integer helpers exist for every primitive integer type
    for ity in ('u8', 'u16', 'u32', 'u64', 'usize', 'i8', 'i16', 'i32', 'i64', 'isize'):
        base = 'core::num::<impl %s>::' % ity
        for name, fn_ in (('saturating_sub', m_saturating_sub), ('saturating_add', m_saturating_add), ('saturating_mul', m_saturating_mul),
                          ('wrapping_add', _wrapping('add')), ('wrapping_sub', _wrapping('sub')), ('wrapping_mul', _wrapping('mul')),
                          ('checked_add', m_checked('add')), ('checked_sub', m_checked('sub')), ('checked_mul', m_checked('mul'))):
            R.setdefault(base + name, fn_)
        if ity.startswith('u'):
            R.setdefault(base + 'abs_diff', m_abs_diff)
        for kind in ('trailing_zeros', 'leading_zeros', 'count_ones', 'count_zeros'):
            R.setdefault(base + kind, _bit_count_model(kind))
        R.setdefault(base + 'div_euclid', m_div_euclid)
        R.setdefault(base + 'rem_euclid', m_rem_euclid)
        R.setdefault(base + 'pow', m_int_pow)
        R.setdefault(base + 'checked_ilog2', m_checked_ilog2)
        R.setdefault('<%s as core::cmp::Ord>::clamp' % ity, m_int_clamp)
        R.setdefault('core::cmp::Ord::clamp', m_int_clamp)
    # Default::default of the primitive types (reached through #[derive(Default)] on private state structs)
    for ity in ('u8', 'u16', 'u32', 'u64', 'usize', 'i8', 'i16', 'i32', 'i64', 'isize'):
        R.setdefault('<%s as core::default::Default>::default' % ity, (lambda ty_: (lambda it, st, fr, t, args, ga: I.Num(ZERO, ty_)))(ity))
    for fty in ('f32', 'f64'):
        R.setdefault('<%s as core::default::Default>::default' % fty, (lambda ty_: (lambda it, st, fr, t, args, ga: I.Num(ZERO, ty_)))(fty))
    R.setdefault('<bool as core::default::Default>::default', lambda it, st, fr, t, args, ga: I.BoolV(FALSE))
    return R
