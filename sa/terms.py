"""Term domain for the abstract interpreter (DESIGN §4: domains 1,2,4,5,8).

A scalar abstract value is an exact *term*: a polynomial with rational coefficients over
atoms.  Atoms are symbols (pre-state fields, arguments) or opaque operations
(`idiv`, `mod`, `min`, `tbl[...]`, `f2i`, uninterpreted `app`, ...).  Intervals are not stored:
they are computed from the term and the ranges of its symbols in a context (`Ctx`), which
also carries the order facts learned from branch guards.

Real arithmetic is used for floats (rounding is ignored, see DESIGN §4 caveats); the special
constant NAN is absorbing and is only introduced by rules that partition an input into
{NaN} and the extended reals.
"""
from fractions import Fraction as Fr
import itertools

INF = float('inf')


def _mulx(a, b):
    if a == 0 or b == 0:
        return Fr(0)
    return a * b


_SEM = [None]


def set_sem(ctx):
    """switch term equality to `semantic under ctx` (rules only; None = structural, used by the interpreter)"""
    _SEM[0] = ctx


class Poly:
    """Immutable polynomial: dict monomial -> coeff; monomial = tuple of (atom, power), sorted by repr."""
    __slots__ = ('t', '_h', '_k')

    def __init__(self, t=None):
        self.t = t if t is not None else {}
        self._h = None
        self._k = None

    # -- construction
    @staticmethod
    def const(c):
        c = Fr(c)
        return Poly({(): c}) if c != 0 else Poly({})

    @staticmethod
    def atom(a, power=1):
        return Poly({((a, power),): Fr(1)})

    @staticmethod
    def sym(name):
        return Poly.atom(('sym', name))

    def __deepcopy__(self, memo):
        return self

    def __copy__(self):
        return self

    def key(self):
        if self._k is None:
            self._k = tuple(sorted(((m, c) for m, c in self.t.items()), key=lambda x: repr(x[0])))
        return self._k

    def __hash__(self):
        if self._h is None:
            self._h = hash(self.key())
        return self._h

    def __eq__(self, o):
        if not isinstance(o, Poly):
            return False
        if self.t == o.t:
            return True
        ctx = _SEM[0]
        if ctx is None:
            return False
        # rule evaluation mode: equality of terms is semantic under the outcome's ranges and facts
        _SEM[0] = None
        try:
            return ctx.sem_eq(self, o)
        finally:
            _SEM[0] = ctx

    def __ne__(self, o):
        return not self.__eq__(o)

    def is_const(self):
        return all(m == () for m in self.t)

    def const_value(self):
        if not self.t:
            return Fr(0)
        if self.is_const():
            return self.t[()]
        return None

    def is_nan(self):
        return any(a == NAN_ATOM for m in self.t for a, _ in m)

    def atoms(self):
        s = set()
        for m in self.t:
            for a, _ in m:
                s.add(a)
        return s

    def as_single_atom(self):
        """If the polynomial is exactly one atom (coeff 1, power 1) return it."""
        if len(self.t) == 1:
            (m, c), = self.t.items()
            if c == 1 and len(m) == 1 and m[0][1] == 1:
                return m[0][0]
        return None

    # -- arithmetic
    def inf_sign(self):
        """+1 / -1 if the polynomial contains the +-inf atom linearly (IEEE: finite + inf = inf), 0 if none,
        None if the infinite part is not a plain signed atom"""
        s = 0
        for m, c in self.t.items():
            for a, pw in m:
                if a in (PINF_ATOM, NINF_ATOM):
                    if len(m) != 1 or pw != 1:
                        return None
                    sg = (1 if c > 0 else -1) * (1 if a == PINF_ATOM else -1)
                    if s and s != sg:
                        return None
                    s = sg
        return s

    def __add__(self, o):
        o = as_poly(o)
        if self.is_nan() or o.is_nan():
            return NAN
        sa, sb = self.inf_sign(), o.inf_sign()
        if sa or sb:
            # IEEE arithmetic with infinities: inf - inf = NaN, finite + inf = inf
            if sa is None or sb is None:
                pass
            elif sa and sb and sa != sb:
                return NAN
            else:
                return Poly.atom(PINF_ATOM if (sa or sb) > 0 else NINF_ATOM)
        t = dict(self.t)
        for m, c in o.t.items():
            v = t.get(m, 0) + c
            if v == 0:
                t.pop(m, None)
            else:
                t[m] = v
        return Poly(t)

    __radd__ = __add__

    def __neg__(self):
        return Poly({m: -c for m, c in self.t.items()})

    def __sub__(self, o):
        return self + (-as_poly(o))

    def __rsub__(self, o):
        return as_poly(o) - self

    def __mul__(self, o):
        o = as_poly(o)
        if self.is_nan() or o.is_nan():
            return NAN
        t = {}
        for m1, c1 in self.t.items():
            for m2, c2 in o.t.items():
                m = _mono_mul(m1, m2)
                v = t.get(m, 0) + c1 * c2
                if v == 0:
                    t.pop(m, None)
                else:
                    t[m] = v
        return Poly(t)

    __rmul__ = __mul__

    def scale(self, c):
        c = Fr(c)
        if c == 0:
            return Poly({})
        return Poly({m: v * c for m, v in self.t.items()})

    def degree_in(self, atom):
        d = 0
        for m in self.t:
            for a, p in m:
                if a == atom:
                    d = max(d, abs(p)) if p > 0 else max(d, 99)
        return d

    def subst(self, mapping):
        """Substitute atoms by polynomials (positive powers only for substituted atoms)."""
        res = Poly({})
        for m, c in self.t.items():
            term = Poly.const(c)
            for a, p in m:
                if a in mapping:
                    if p < 0:
                        term = term * inv_poly(mapping[a]).pow(-p)
                    else:
                        term = term * mapping[a].pow(p)
                else:
                    term = term * Poly({((a, p),): Fr(1)})
            res = res + term
        return res

    def pow(self, n):
        r = Poly.const(1)
        for _ in range(n):
            r = r * self
        return r

    def diff(self, atom):
        res = {}
        for m, c in self.t.items():
            for i, (a, p) in enumerate(m):
                if a == atom:
                    nm = list(m)
                    if p == 1:
                        nm.pop(i)
                    else:
                        nm[i] = (a, p - 1)
                    nm = tuple(nm)
                    res[nm] = res.get(nm, 0) + c * p
        return Poly({m: c for m, c in res.items() if c != 0})

    def __repr__(self):
        if not self.t:
            return '0'
        parts = []
        for m, c in sorted(self.t.items(), key=lambda x: repr(x[0])):
            ms = '*'.join(_atom_str(a) + ('' if p == 1 else '^%d' % p) for a, p in m)
            if not ms:
                parts.append(_fr_str(c))
            elif c == 1:
                parts.append(ms)
            elif c == -1:
                parts.append('-' + ms)
            else:
                parts.append(_fr_str(c) + '*' + ms)
        return ' + '.join(parts).replace('+ -', '- ')


def _fr_str(c):
    if c.denominator == 1:
        return str(c.numerator)
    f = float(c)
    if Fr(repr(f)) == c:
        return repr(f)
    return '%d/%d' % (c.numerator, c.denominator)


def _atom_str(a):
    tag = a[0]
    if tag == 'sym':
        return a[1]
    if tag == 'nan':
        return 'NaN'
    if tag == 'app':
        return '%s(%s)' % (a[1], ', '.join(repr(x) for x in a[2]))
    return '%s(%s)' % (tag, ', '.join(repr(x) for x in a[1:]))


def _mono_mul(m1, m2):
    if not m1:
        return m2
    if not m2:
        return m1
    d = dict(m1)
    for a, p in m2:
        v = d.get(a, 0) + p
        if v == 0:
            d.pop(a, None)
        else:
            d[a] = v
    return tuple(sorted(d.items(), key=lambda x: repr(x[0])))


NAN_ATOM = ('nan',)
PINF_ATOM = ('sym', '+inf')
NINF_ATOM = ('sym', '-inf')
NAN = Poly({((NAN_ATOM, 1),): Fr(1)})
ZERO = Poly({})
ONE = Poly.const(1)


def as_poly(x):
    if isinstance(x, Poly):
        return x
    return Poly.const(x)


def inv_poly(q):
    """1/q as a polynomial with negative powers / inv atoms."""
    q = as_poly(q)
    if q.is_nan():
        return NAN
    if len(q.t) == 1:
        (m, c), = q.t.items()
        if c == 0:
            return Poly.atom(('inv', q))
        nm = tuple((a, -p) for a, p in m)
        return Poly({nm: 1 / c})
    if not q.t:
        return Poly.atom(('inv', q))
    return Poly.atom(('inv', q))


# ---------------------------------------------------------------------------------------
# boolean terms

class B:
    """Boolean term.  kinds: ('const', b) | ('cmp', op, D) meaning D op 0, op in < <= == !=
    | ('not', B) | ('and', B, B) | ('or', B, B) | ('sym', name) | ('app', fname, args)"""
    __slots__ = ('k',)

    def __init__(self, k):
        self.k = k

    def __hash__(self):
        return hash(self.k)

    def __eq__(self, o):
        return isinstance(o, B) and self.k == o.k

    def __deepcopy__(self, memo):
        return self

    def __repr__(self):
        k = self.k
        if k[0] == 'const':
            return 'true' if k[1] else 'false'
        if k[0] == 'cmp':
            return '(%r %s 0)' % (k[2], k[1])
        if k[0] == 'not':
            return '!%r' % (k[1],)
        if k[0] in ('and', 'or'):
            return '(%r %s %r)' % (k[1], k[0], k[2])
        if k[0] == 'sym':
            return k[1]
        if k[0] == 'app':
            return '%s(%s)' % (k[1], ', '.join(repr(x) for x in k[2]))
        return repr(k)

    def is_const(self):
        return self.k[0] == 'const'

    def value(self):
        return self.k[1] if self.k[0] == 'const' else None


TRUE = B(('const', True))
FALSE = B(('const', False))


def bconst(b):
    return TRUE if b else FALSE


def bnot(b):
    if b.k[0] == 'const':
        return bconst(not b.k[1])
    if b.k[0] == 'not':
        return b.k[1]
    if b.k[0] == 'cmp':
        op, d = b.k[1], b.k[2]
        if d.is_nan():
            return bconst(op != '!=') if False else B(('not', b))
        if op == '<':      # !(d < 0)  ==  -d <= 0
            return B(('cmp', '<=', -d))
        if op == '<=':     # !(d <= 0) ==  -d < 0
            return B(('cmp', '<', -d))
        if op == '==':
            return B(('cmp', '!=', d))
        if op == '!=':
            return B(('cmp', '==', d))
    return B(('not', b))


def band(a, b):
    if a.is_const():
        return b if a.value() else FALSE
    if b.is_const():
        return a if b.value() else FALSE
    if a == b:
        return a
    return B(('and', a, b))


def bor(a, b):
    if a.is_const():
        return TRUE if a.value() else b
    if b.is_const():
        return TRUE if b.value() else a
    if a == b:
        return a
    return B(('or', a, b))


def cmp_term(op, a, b):
    """a op b for polys; op in Lt Le Gt Ge Eq Ne -> normalised ('cmp', op', D)."""
    a, b = as_poly(a), as_poly(b)
    if a.is_nan() or b.is_nan():
        return bconst(op == 'Ne')
    if op == 'Lt':
        d, o = a - b, '<'
    elif op == 'Le':
        d, o = a - b, '<='
    elif op == 'Gt':
        d, o = b - a, '<'
    elif op == 'Ge':
        d, o = b - a, '<='
    elif op == 'Eq':
        d, o = a - b, '=='
    elif op == 'Ne':
        d, o = a - b, '!='
    else:
        raise ValueError(op)
    if d.is_nan():
        # the difference is inf - inf: the operands are equal infinities (IEEE: inf < inf is false, inf == inf is true)
        return bconst(o in ('<=', '=='))
    c = d.const_value()
    if c is not None:
        return bconst({'<': c < 0, '<=': c <= 0, '==': c == 0, '!=': c != 0}[o])
    if o in ('==', '!='):
        # a product compared with 0: drop factors that are structurally non-zero; a {0,1}-valued factor b gives the
        # canonical forms  (b != 0) -> (b - 1 == 0),  (b == 0) -> (b - 1 != 0)
        if len(d.t) == 1 and () not in d.t:
            (m, c), = d.t.items()
            rest = [(a_, pw) for a_, pw in m if not _struct_nonzero(a_)]
            if len(rest) == 1 and rest[0][1] >= 1 and _struct_bit(rest[0][0]):
                bterm = Poly.atom(rest[0][0]) - 1
                return B(('cmp', '==' if o == '!=' else '!=', bterm))
            if len(rest) < len(m) and rest:
                d = Poly({tuple(rest): Fr(1)})
        # canonical sign: make the leading coefficient positive
        lead = d.key()[0][1]
        if lead < 0:
            d = -d
    return B(('cmp', o, d))


def _struct_nonzero(a):
    return a[0] == 'shl' and a[1].const_value() is not None and a[1].const_value() >= 1


def _struct_bit(a):
    return a[0] == 'mod' and a[2].const_value() == 2


# ---------------------------------------------------------------------------------------
# context: symbol ranges + facts

class Ctx:
    """Ranges of symbols and atoms, and facts (boolean terms known true)."""

    def __init__(self, ranges=None, facts=None, tables=None):
        self.elem_bounds = {}              # symbolic base sequence term -> (lo, hi) of all its elements (class invariant)
        self.sym_deps = {}                 # name prefix of an unknown call result -> symbols its arguments mentioned
        self.ranges = dict(ranges or {})   # atom -> (lo, hi)
        self.facts = list(facts or [])     # list of B known true
        self.tables = tables or {}         # name -> list of Fractions
        self.int_atoms = set()             # atoms known to be integers
        self.origin = None                 # function in which the next facts are learned (set by the interpreter)
        self.origins = {}                  # fact -> function path where it was first assumed
        self.origin_stack = None           # call stack (function paths, entry first) at that point
        self.origin_stacks = {}            # fact -> call stack where it was first assumed

    def copy(self):
        c = Ctx(self.ranges, self.facts, self.tables)
        c.int_atoms = set(self.int_atoms)
        c.origin = self.origin
        c.origins = dict(self.origins)
        c.origin_stack = self.origin_stack
        c.origin_stacks = dict(self.origin_stacks)
        c.elem_bounds = dict(self.elem_bounds)
        c.sym_deps = dict(self.sym_deps)
        return c

    def elem_hull(self, term):
        """interval containing every element of a sequence term: the pushed values plus the declared bounds of the symbolic
        base sequence (a class invariant installed by a rule); None when unknown"""
        lo, hi = None, None

        def join(l_, h_):
            nonlocal lo, hi
            lo = l_ if lo is None else min(lo, l_)
            hi = h_ if hi is None else max(hi, h_)
        t = term
        for _ in range(200):
            if not (isinstance(t, tuple) and t):
                return None
            if t[0] == 'push' and len(t) >= 3 and isinstance(t[2], Poly):
                join(*self.rng(t[2]))
                t = t[1]
            elif t[0] in ('retain', 'remove', 'from', 'take', 'skip') and len(t) >= 2:
                t = t[1]
            elif t in (('new',), ('clear',)):
                return (lo, hi) if lo is not None else (Fr(0), Fr(0))
            elif t in self.elem_bounds:
                join(*self.elem_bounds[t])
                return (lo, hi)
            else:
                return None
        return None

    def __deepcopy__(self, memo):
        return self.copy()

    def set_range(self, atom, lo, hi):
        self.ranges[atom] = (lo, hi)

    def sym_range(self, name, lo, hi, integer=False):
        a = ('sym', name)
        self.ranges[a] = (Fr(lo) if lo not in (INF, -INF) else lo, Fr(hi) if hi not in (INF, -INF) else hi)
        if integer:
            self.int_atoms.add(a)
        return Poly.atom(a)

    # ---- ranges
    def atom_range(self, a):
        if a == PINF_ATOM:
            return (INF, INF)
        if a == NINF_ATOM:
            return (-INF, -INF)
        if a in self.ranges:
            r = self.ranges[a]
            # compound atoms can still be narrowed structurally
            if a[0] == 'sym':
                return r
            s = self._struct_range(a)
            return (max(r[0], s[0]), min(r[1], s[1]))
        if a[0] == 'sym':
            return (-INF, INF)
        return self._struct_range(a)

    def _struct_range(self, a):
        tag = a[0]
        if tag == 'nan':
            return (-INF, INF)
        if tag == 'inv':
            lo, hi = self.rng(a[1])
            if lo > 0 or hi < 0:
                return (Fr(1) / hi if hi not in (INF, -INF) else Fr(0), Fr(1) / lo if lo not in (INF, -INF) else Fr(0))
            return (-INF, INF)
        if tag == 'idiv':
            plo, phi = self.rng(a[1])
            qlo, qhi = self.rng(a[2])
            if qlo > 0 and plo >= 0:
                lo = _floor(plo / qhi) if qhi != INF else Fr(0)
                hi = _floor(phi / qlo) if phi != INF else INF
                return (lo, hi)
            return (-INF, INF)
        if tag == 'mod':
            plo, phi = self.rng(a[1])
            qlo, qhi = self.rng(a[2])
            if qlo > 0 and plo >= 0:
                return (Fr(0), min(phi, qhi - 1))
            return (-INF, INF)
        if tag == 'frem':
            # float remainder keeps the sign of the dividend, |r| < |q|
            plo, phi = self.rng(a[1])
            qlo, qhi = self.rng(a[2])
            q = max(abs(qlo), abs(qhi))
            lo = -q if plo < 0 else Fr(0)
            hi = q if phi > 0 else Fr(0)
            return (max(lo, plo) if plo >= 0 else lo, min(hi, phi) if phi >= 0 else hi)
        if tag in ('min', 'fmin'):
            l1, h1 = self.rng(a[1])
            l2, h2 = self.rng(a[2])
            return (min(l1, l2), min(h1, h2))
        if tag in ('max', 'fmax'):
            l1, h1 = self.rng(a[1])
            l2, h2 = self.rng(a[2])
            return (max(l1, l2), max(h1, h2))
        if tag == 'abs':
            lo, hi = self.rng(a[1])
            if lo >= 0:
                return (lo, hi)
            if hi <= 0:
                return (-hi, -lo)
            return (Fr(0), max(-lo, hi))
        if tag == 'tbl':
            tb = self.tables.get(a[1])
            if tb is None:
                return (-INF, INF)
            ilo, ihi = self.rng(a[2])
            n = len(tb)
            if ilo == -INF or ihi == INF or ilo < 0 or ihi > n - 1:
                return (min(tb), max(tb))
            seg = tb[int(ilo):int(ihi) + 1]
            return (min(seg), max(seg))
        if tag == 'f2i':
            lo, hi = self.rng(a[1])
            tlo, thi = a[2], a[3]
            lo2 = _trunc(lo) if lo not in (INF, -INF) else lo
            hi2 = _trunc(hi) if hi not in (INF, -INF) else hi
            return (max(min(lo2, thi), tlo), min(max(hi2, tlo), thi))
        if tag == 'ite':
            l1, h1 = self.rng(a[2])
            l2, h2 = self.rng(a[3])
            return (min(l1, l2), max(h1, h2))
        if tag == 'bitand':
            l1, h1 = self.rng(a[1])
            l2, h2 = self.rng(a[2])
            if l1 >= 0 and l2 >= 0:
                return (Fr(0), min(h1, h2))
            return (-INF, INF)
        if tag == 'bitor':
            l1, h1 = self.rng(a[1])
            l2, h2 = self.rng(a[2])
            if l1 >= 0 and l2 >= 0 and h1 != INF and h2 != INF:
                top = max(int(h1), int(h2))
                bound = (1 << top.bit_length()) - 1
                return (max(l1, l2), Fr(min(bound, int(h1) + int(h2))))
            return (-INF, INF)
        if tag == 'bitxor':
            l1, h1 = self.rng(a[1])
            l2, h2 = self.rng(a[2])
            if l1 >= 0 and l2 >= 0 and h1 != INF and h2 != INF:
                top = max(int(h1), int(h2))
                return (Fr(0), Fr((1 << top.bit_length()) - 1))
            return (-INF, INF)
        if tag == 'shl':
            l1, h1 = self.rng(a[1])
            l2, h2 = self.rng(a[2])
            if l1 >= 0 and l2 >= 0 and h2 != INF and h1 != INF:
                return (l1 * (1 << int(l2)), h1 * (1 << int(h2)))
            return (-INF, INF)
        if tag == 'shr':
            l1, h1 = self.rng(a[1])
            l2, h2 = self.rng(a[2])
            if l1 >= 0 and l2 >= 0 and h2 != INF and h1 != INF:
                return (Fr(int(l1) >> int(h2)), Fr(int(h1) >> int(l2)))
            return (-INF, INF)
        if tag == 'app' and a[1] == 'elem':
            # element of a sequence built by new/push only: hull of the pushed elements
            T = a[2][0]
            los, his = [], []
            while isinstance(T, tuple) and T and T[0] == 'push' and isinstance(T[2], Poly):
                l_, h_ = self.rng(T[2])
                los.append(l_)
                his.append(h_)
                T = T[1]
            if T in (('new',), ('clear',)) and los:
                return (min(los), max(his))
            return (-INF, INF)
        if tag == 'wrap':
            # value reduced modulo 2^bits (unsigned wrap-around)
            return (Fr(0), Fr((1 << a[2]) - 1))
        if tag == 'tan':
            lo, hi = self.rng(a[1])
            import math
            h = Fr(math.pi) / 2
            if lo > -h and hi < h and lo != -INF and hi != INF:
                tl = Fr(math.tan(float(lo)))
                th = Fr(math.tan(float(hi)))
                pad = Fr(3, 10 ** 7)
                return (tl - abs(tl) * pad - Fr(1, 10 ** 12), th + abs(th) * pad + Fr(1, 10 ** 12))
            return (-INF, INF)
        return (-INF, INF)

    def rng(self, p):
        """Sound interval of polynomial p over the ranges of its atoms.
        Atoms in which p is linear are eliminated exactly (end points); the rest by interval
        arithmetic per monomial."""
        p = as_poly(p)
        c = p.const_value()
        if c is not None:
            return (c, c)
        if p.is_nan():
            return (-INF, INF)
        atoms = sorted(p.atoms(), key=repr)
        ranges = {a: self.atom_range(a) for a in atoms}
        lo, hi = self._rng_rec(p, atoms, ranges, 0)
        # tighten with order facts on the same polynomial up to an affine map: p = s*F + k, F (<|<=|==) 0
        if len(p.t) > 1 or (len(p.t) == 1 and () not in p.t):
            for f in self.facts:
                if f.k[0] != 'cmp' or f.k[1] == '!=':
                    continue
                sk = _affine_ratio(p, f.k[2])
                if sk is None:
                    continue
                s_, k_ = sk
                if f.k[1] == '==':
                    lo, hi = max(lo, k_), min(hi, k_)
                else:
                    # strict facts on integer-valued polynomials: F < 0  =>  F <= -1
                    step = abs(s_) if (f.k[1] == '<' and self._int_valued(f.k[2])) else 0
                    if s_ > 0:
                        hi = min(hi, k_ - step)
                    else:
                        lo = max(lo, k_ + step)
        return (lo, hi)

    def _int_valued(self, p):
        for m, c in p.t.items():
            if c.denominator != 1:
                return False
            for a, pw in m:
                if pw < 1:
                    return False
                if a in self.int_atoms or a[0] in ('idiv', 'mod', 'f2i', 'bitand', 'bitor', 'shr', 'shl'):
                    continue
                if a[0] in ('abs', 'min', 'max') and all(isinstance(x, Poly) and self._int_valued(x) for x in a[1:]):
                    continue     # |p|, min(p,q), max(p,q) of integer-valued terms are integer-valued
                return False
        return True

    def _rng_rec(self, p, atoms, ranges, depth):
        c = p.const_value()
        if c is not None:
            return (c, c)
        # choose a linear atom with finite range to eliminate exactly
        if depth < 14:
            for a in atoms:
                if a not in p.atoms():
                    continue
                lo, hi = ranges[a]
                if lo in (INF, -INF) or hi in (INF, -INF):
                    continue
                if _is_linear_in(p, a):
                    if lo == hi:
                        return self._rng_rec(p.subst({a: Poly.const(lo)}), atoms, ranges, depth + 1)
                    r1 = self._rng_rec(p.subst({a: Poly.const(lo)}), atoms, ranges, depth + 1)
                    r2 = self._rng_rec(p.subst({a: Poly.const(hi)}), atoms, ranges, depth + 1)
                    return (min(r1[0], r2[0]), max(r1[1], r2[1]))
        # univariate quadratic: exact range (end points and vertex)
        pats = p.atoms()
        if len(pats) == 1:
            a = next(iter(pats))
            alo, ahi = ranges[a]
            degs = set()
            for m in p.t:
                for b_, pw in m:
                    degs.add(pw)
            if degs <= {1, 2} and alo not in (INF, -INF) and ahi not in (INF, -INF) and not any(_occurs_in(a, b_) for b_ in pats if b_ != a):
                c2 = p.t.get(((a, 2),), Fr(0))
                c1 = p.t.get(((a, 1),), Fr(0))
                c0 = p.t.get((), Fr(0))
                f = lambda x: c2 * x * x + c1 * x + c0
                cands = [f(alo), f(ahi)]
                if c2 != 0:
                    xv = -c1 / (2 * c2)
                    if alo <= xv <= ahi:
                        cands.append(f(xv))
                return (min(cands), max(cands))
        # interval arithmetic per monomial
        lo_t, hi_t = Fr(0), Fr(0)
        for m, c in p.t.items():
            mlo, mhi = Fr(1), Fr(1)
            for a, pw in m:
                alo, ahi = ranges[a]
                plo, phi = _pow_range(alo, ahi, pw)
                cands = [_mulx(mlo, plo), _mulx(mlo, phi), _mulx(mhi, plo), _mulx(mhi, phi)]
                mlo, mhi = min(cands), max(cands)
            if c >= 0:
                lo_t, hi_t = lo_t + _mulx(mlo, c), hi_t + _mulx(mhi, c)
            else:
                lo_t, hi_t = lo_t + _mulx(mhi, c), hi_t + _mulx(mlo, c)
        if lo_t != lo_t:
            lo_t = -INF
        if hi_t != hi_t:
            hi_t = INF
        return (lo_t, hi_t)

    # ---- deciding boolean terms
    def decide(self, b):
        """True / False / None"""
        k = b.k
        if k[0] == 'const':
            return k[1]
        for f in self.facts:
            if f == b:
                return True
            if f == bnot(b):
                return False
        if k[0] == 'not':
            r = self.decide(k[1])
            return None if r is None else (not r)
        if k[0] == 'and':
            r1, r2 = self.decide(k[1]), self.decide(k[2])
            if r1 is False or r2 is False:
                return False
            if r1 is True and r2 is True:
                return True
            return None
        if k[0] == 'or':
            r1, r2 = self.decide(k[1]), self.decide(k[2])
            if r1 is True or r2 is True:
                return True
            if r1 is False and r2 is False:
                return False
            return None
        if k[0] == 'cmp':
            return self.decide_cmp(k[1], k[2])
        return None

    def decide_cmp(self, op, d, _depth=0):
        lo, hi = self.rng(d)
        r = _decide_by_range(op, lo, hi)
        if r is not None:
            return r
        # order facts on the same polynomial up to an affine map d = s*F + k: accumulate all bounds, then decide
        blo, bhi = (lo, False), (hi, False)
        used = False
        for f in self.facts:
            if f.k[0] != 'cmp':
                continue
            fop, fd = f.k[1], f.k[2]
            sk = _affine_ratio(d, fd)
            if sk is None:
                continue
            s, k = sk
            lo2, hi2 = _fact_range(fop, s)
            if lo2 is None:
                # fact is '!=': only decides ==/!= of the same polynomial
                if k == 0:
                    if op == '==':
                        return False
                    if op == '!=':
                        return True
                continue
            used = True
            step = abs(s) if (fop == '<' and self._int_valued(fd)) else 0
            l2 = (lo2[0] + k + (step if lo2[0] != -INF and lo2[1] else 0), lo2[1] and not step)
            h2 = (hi2[0] + k - (step if hi2[0] != INF and hi2[1] else 0), hi2[1] and not step)
            if l2[0] > blo[0] or (l2[0] == blo[0] and l2[1]):
                blo = l2
            if h2[0] < bhi[0] or (h2[0] == bhi[0] and h2[1]):
                bhi = h2
        if used:
            if blo[0] > bhi[0]:
                return None   # contradictory facts: leave undecided
            r = _decide_by_range_strict(op, blo, bhi)
            if r is not None:
                return r
            if op == '==' and blo[0] == bhi[0] == 0 and not blo[1] and not bhi[1]:
                return True
            if op == '!=' and blo[0] == bhi[0] == 0 and not blo[1] and not bhi[1]:
                return False
        # last resort: floor-division identity  c*idiv(P,c) = P - mod(P,c)
        d2 = _expand_idiv(d, self)
        if d2 is not None and d2 != d:
            lo, hi = self.rng(d2)
            r = _decide_by_range(op, lo, hi)
            if r is not None:
                return r
        # linear closure of the order facts (Fourier-Motzkin over the rationals, monomials as variables)
        if _depth == 0 and not getattr(self, '_no_fm', False):
            r = self._fm_decide(op, d)
            if r is not None:
                return r
        # min(a,b) / max(a,b) is one of its arguments: a comparison that comes out the same for both holds
        # (the float variants return the other operand when one is NaN, still one of the two)
        if _depth < 3:
            for a in d.atoms():
                if a[0] in ('min', 'max', 'fmin', 'fmax') and len(a) == 3 and isinstance(a[1], Poly) and isinstance(a[2], Poly) \
                        and not a[1].is_nan() and not a[2].is_nan():
                    r1 = self.decide_cmp(op, d.subst({a: a[1]}), _depth + 1)
                    if r1 is None:
                        continue
                    r2 = self.decide_cmp(op, d.subst({a: a[2]}), _depth + 1)
                    if r2 == r1:
                        return r1
        return None

    # ---- linear closure of order facts
    def _lin(self, p):
        """polynomial as ({monomial: coeff}, const): every non-constant monomial is an uninterpreted variable"""
        co, c0 = {}, Fr(0)
        for m, c in p.t.items():
            if m == ():
                c0 += c
            else:
                co[m] = co.get(m, Fr(0)) + c
        return co, c0

    def _fm_infeasible(self, cons):
        """cons: list of (coeffs, const, strict) meaning sum + const (< | <=) 0.  True iff provably infeasible over Q."""
        cons = [(dict(c), k, st_) for c, k, st_ in cons]
        for _round in range(24):
            # contradictions among variable-free constraints
            rest = []
            for c, k, st_ in cons:
                c = {v: x for v, x in c.items() if x != 0}
                if not c:
                    if k > 0 or (k == 0 and st_):
                        return True
                    continue
                rest.append((c, k, st_))
            cons = rest
            if not cons:
                return False
            # eliminate the variable with the fewest (pos x neg) products
            occ = {}
            for c, k, st_ in cons:
                for v, x in c.items():
                    p_, n_ = occ.get(v, (0, 0))
                    occ[v] = (p_ + (x > 0), n_ + (x < 0))
            v = min(occ, key=lambda u: occ[u][0] * occ[u][1])
            pos = [(c, k, st_) for c, k, st_ in cons if c.get(v, 0) > 0]
            neg = [(c, k, st_) for c, k, st_ in cons if c.get(v, 0) < 0]
            new = [(c, k, st_) for c, k, st_ in cons if c.get(v, 0) == 0]
            if len(pos) * len(neg) > 400:
                return False
            for c1, k1, s1 in pos:
                for c2, k2, s2 in neg:
                    a1, a2 = c1[v], -c2[v]
                    c = {}
                    for u, x in c1.items():
                        if u != v:
                            c[u] = c.get(u, Fr(0)) + x * a2
                    for u, x in c2.items():
                        if u != v:
                            c[u] = c.get(u, Fr(0)) + x * a1
                    new.append((c, k1 * a2 + k2 * a1, s1 or s2))
            if len(new) > 600:
                return False
            cons = new
        return False

    def _fm_decide(self, op, d):
        """decide `d op 0` by refuting its negation against the order facts and atom ranges (linear combinations of facts,
        which the affine matching above cannot find: a <= b, b <= c |- a <= c)."""
        if len(self.facts) > 60:
            return None
        dco, dk = self._lin(d)
        if not dco or len(dco) > 8:
            return None
        base = []
        vars_ = set(dco)
        lin_facts = []
        for f in self.facts:
            if f.k[0] != 'cmp' or f.k[1] == '!=':
                continue
            co, k = self._lin(f.k[2])
            if not co or len(co) > 8:
                continue
            lin_facts.append((f.k[1], co, k))
        # connected component of the query
        changed = True
        while changed:
            changed = False
            for fop, co, k in lin_facts:
                if vars_ & set(co) and not set(co) <= vars_:
                    vars_ |= set(co)
                    changed = True
        if len(vars_) > 14:
            return None
        if not any(set(co) & vars_ for fop, co, k in lin_facts):
            return None     # no order fact talks about these terms: interval evaluation above was already complete
        ck = (len(self.facts), op, d.key())
        cache = self.__dict__.setdefault('_fm_cache', {})
        if ck in cache:
            return cache[ck]
        r_ = self._fm_decide2(op, d, dco, dk, vars_, lin_facts)
        if r_ is not None:      # an undecided answer may become decidable when ranges are refined: never cached
            if len(cache) > 4000:
                cache.clear()
            cache[ck] = r_
        return r_

    def _fm_decide2(self, op, d, dco, dk, vars_, lin_facts):
        base = []
        for fop, co, k in lin_facts:
            if not (set(co) & vars_):
                continue
            integral = fop == '<' and self._int_valued(Poly(dict(co)))
            if fop == '<':
                base.append((co, k + (1 if integral and k.denominator == 1 else 0), not (integral and k.denominator == 1)))
            elif fop == '<=':
                base.append((co, k, False))
            else:
                base.append((co, k, False))
                base.append(({v: -x for v, x in co.items()}, -k, False))
        # min / max atoms: m = min(a, b) satisfies m <= a, m <= b always, and (m >= a or m >= b): the disjunction is
        # handled by refuting every case (at most three such atoms)
        splits = []
        vars_ = set(vars_)
        for m in sorted(vars_, key=repr):
            if len(m) == 1 and m[0][1] == 1 and m[0][0][0] in ('min', 'max') and len(m[0][0]) == 3 \
                    and isinstance(m[0][0][1], Poly) and isinstance(m[0][0][2], Poly):
                a = m[0][0]
                sgn = Fr(1) if a[0] == 'min' else Fr(-1)
                alts = []
                for arg in (a[1], a[2]):
                    co, k = self._lin(arg)
                    if len(co) > 6:
                        alts = None
                        break
                    vars_ |= set(co)
                    # min: m - arg <= 0 ; max: arg - m <= 0
                    c1 = {v: -sgn * x for v, x in co.items()}
                    c1[m] = c1.get(m, Fr(0)) + sgn
                    base.append((c1, -sgn * k, False))
                    # the case "m is this argument": the reverse inequality
                    c2 = {v: sgn * x for v, x in co.items()}
                    c2[m] = c2.get(m, Fr(0)) - sgn
                    alts.append((c2, sgn * k, False))
                if alts and len(splits) < 3:
                    splits.append(alts)
        for m in vars_:
            lo, hi = self.rng(Poly({m: Fr(1)}))
            if hi not in (INF, -INF):
                base.append(({m: Fr(1)}, -hi, False))
            if lo not in (INF, -INF):
                base.append(({m: Fr(-1)}, lo, False))
        if len(base) > 90:
            return None
        neg = lambda co: {v: -x for v, x in co.items()}
        int_d = self._int_valued(d)
        import itertools
        cases = list(itertools.product(*splits)) if splits else [()]

        def refute(co, k, strict):
            return all(self._fm_infeasible(base + list(case) + [(co, k, strict)]) for case in cases)
        # to prove d < 0 refute d >= 0 (-d <= 0); d <= 0: refute d > 0 (-d < 0; for integers -d + 1 <= 0)
        def proves(o):
            if o == '<':
                return refute(neg(dco), -dk, False)
            if o == '<=':
                return refute(neg(dco), -dk + (1 if int_d else 0), not int_d)
            if o == '>':
                return refute(dco, dk, False)
            if o == '>=':
                return refute(dco, dk + (1 if int_d else 0), not int_d)
        if op == '<':
            if proves('<'):
                return True
            if proves('>='):
                return False
        elif op == '<=':
            if proves('<='):
                return True
            if proves('>'):
                return False
        elif op == '==':
            if proves('<=') and proves('>='):
                return True
            if proves('<') or proves('>'):
                return False
        elif op == '!=':
            if proves('<') or proves('>'):
                return True
            if proves('<=') and proves('>='):
                return False
        return None

    def simp(self, p, depth=0):
        """re-apply the smart constructors of all atoms of p under the current ranges and facts"""
        p = as_poly(p)
        if depth > 6:
            return p
        mapping = {}
        for a in p.atoms():
            tag = a[0]
            if tag in ('sym', 'nan', 'app', 'tbl', 'inv', 'ite', 'tan', 'wrap', 'wrapcast'):
                if tag == 'tbl':
                    na = Poly.atom(('tbl', a[1], self.simp(a[2], depth + 1)))
                    if na != Poly.atom(a):
                        mapping[a] = na
                continue
            args = [self.simp(x, depth + 1) if isinstance(x, Poly) else x for x in a[1:]]
            if tag == 'idiv':
                n = t_idiv(args[0], args[1], self)
            elif tag == 'mod':
                n = t_mod(args[0], args[1], self)
            elif tag in ('min', 'fmin'):
                n = t_min(args[0], args[1], self, tag)
            elif tag in ('max', 'fmax'):
                n = t_max(args[0], args[1], self, tag)
            elif tag == 'abs':
                n = t_abs(args[0], self)
            elif tag == 'f2i':
                n = t_f2i(args[0], args[1], args[2], self)
            elif tag == 'bitand':
                n = t_bitand(args[0], args[1], self)
            elif tag == 'bitor':
                n = t_bitor(args[0], args[1], self)
            elif tag == 'shr':
                n = t_shr(args[0], args[1], self)
            elif tag == 'shl':
                n = t_shl(args[0], args[1], self)
            elif tag == 'frem':
                n = t_frem(args[0], args[1], self)
            else:
                continue
            if n != Poly.atom(a):
                mapping[a] = n
        return p.subst(mapping) if mapping else p

    def sem_eq(self, a, b):
        """a and b denote the same value under the current ranges and facts (structurally, after re-simplification,
        or because a - b is decided to be 0)"""
        a, b = as_poly(a), as_poly(b)
        if a == b:
            return True
        a2, b2 = self.simp(a), self.simp(b)
        if a2 == b2:
            return True
        if a2.is_nan() or b2.is_nan():
            return False
        # term identity is asked thousands of times by the rules; the (costly) linear closure is reserved for order queries
        self._no_fm = True
        try:
            if self.decide(cmp_term('Eq', a2, b2)) is True:
                return True
        finally:
            self._no_fm = False
        return _mask_equal(a2, b2)

    def assume(self, b, value=True):
        """Add the fact b == value; refine symbol ranges where the fact is sym <op> const.
        Returns False if the fact is contradictory."""
        if not value:
            b = bnot(b)
        r = self.decide(b)
        if r is False:
            return False
        if r is True:
            return True
        k = b.k
        if k[0] == 'and':
            return self.assume(k[1]) and self.assume(k[2])
        if k[0] == 'not' and k[1].k[0] == 'or':
            return self.assume(bnot(k[1].k[1])) and self.assume(bnot(k[1].k[2]))
        self.facts.append(b)
        if self.origin is not None:
            self.origins.setdefault(b, self.origin)
            if self.origin_stack is not None:
                self.origin_stacks.setdefault(b, self.origin_stack)
        if k[0] == 'cmp':
            self._refine(k[1], k[2])
            if k[1] in ('!=', '<='):
                # d <= 0 together with d != 0 is d < 0 (and the same for -d): `i <= len` at a loop head, `i != len` in its body
                d = k[2]
                for dd in (d, -d):
                    other = B(('cmp', '!=' if k[1] == '<=' else '<=', dd if k[1] == '<=' else dd))
                    partner = [f_ for f_ in self.facts if f_.k[0] == 'cmp' and f_.k[1] == ('!=' if k[1] == '<=' else '<=') and (f_.k[2] == dd or (k[1] == '<=' and f_.k[2] == -dd) or (k[1] == '!=' and f_.k[2] == dd))]
                    for f_ in partner:
                        le = f_.k[2] if f_.k[1] == '<=' else (d if k[1] == '<=' else None)
                        if le is None:
                            continue
                        nb = B(('cmp', '<', le))
                        if nb not in self.facts:
                            self.facts.append(nb)
                            self._refine('<', le)
            if k[1] in ('<', '<=', '=='):
                # c*|p| + rest <= 0 with c > 0 gives c*p + rest <= 0 and -c*p + rest <= 0 (p <= |p| and -p <= |p|)
                d = k[2]
                for m, c in list(d.t.items()):
                    if len(m) == 1 and m[0][1] == 1 and m[0][0][0] == 'abs' and c > 0 and isinstance(m[0][0][1], Poly):
                        rest = Poly({mm: cc for mm, cc in d.t.items() if mm != m})
                        op = '<' if k[1] == '<' else '<='
                        for sgn in (1, -1):
                            nb = B(('cmp', op, rest + m[0][0][1].scale(c * sgn)))
                            if nb not in self.facts and self.decide(nb) is None:
                                self.facts.append(nb)
                                if self.origin is not None:
                                    self.origins.setdefault(nb, self.origin)
        return True

    def _refine(self, op, d):
        # d = c*a + rest(const) ?  refine range of the single atom
        if len(d.t) > 2:
            return
        atoms = d.atoms()
        if len(atoms) != 1:
            return
        a = next(iter(atoms))
        if not _is_linear_in(d, a):
            return
        coef = d.t.get(((a, 1),))
        if coef is None:
            return
        c0 = d.t.get((), Fr(0))
        bound = -c0 / coef
        lo, hi = self.atom_range(a)
        integer = a in self.int_atoms or a[0] in ('idiv', 'mod', 'f2i', 'bitand', 'bitor', 'shr', 'shl')
        if op == '==':
            lo, hi = max(lo, bound), min(hi, bound)
        elif op in ('<', '<='):
            # coef*a + c0 (<|<=) 0
            if coef > 0:
                nb = bound
                if op == '<' and integer:
                    nb = _ceil(bound) - 1
                elif integer:
                    nb = _floor(bound)
                hi = min(hi, nb)
            else:
                nb = bound
                if op == '<' and integer:
                    nb = _floor(bound) + 1
                elif integer:
                    nb = _ceil(bound)
                lo = max(lo, nb)
        elif op == '!=':
            if integer and lo == bound:
                lo = lo + 1
            elif integer and hi == bound:
                hi = hi - 1
        self.ranges[a] = (lo, hi)
        # |P| <= h  =>  -h <= P <= h
        if a[0] == 'abs' and hi not in (INF, -INF):
            for f in (cmp_term('Le', a[1], hi), cmp_term('Ge', a[1], -hi)):
                if f.k[0] == 'cmp' and f not in self.facts:
                    self.facts.append(f)
        # a refined floor-division atom bounds its numerator
        if a[0] == 'idiv' and a[2].const_value() is not None and a[2].const_value() > 0 and lo <= hi:
            c = a[2].const_value()
            if lo not in (INF, -INF) and lo > 0:
                f = cmp_term('Ge', a[1], lo * c)
                if f.k[0] == 'cmp' and f not in self.facts:
                    self.facts.append(f)
            if hi not in (INF, -INF):
                f = cmp_term('Le', a[1], hi * c + c - 1)
                if f.k[0] == 'cmp' and f not in self.facts:
                    self.facts.append(f)


def _floor(x):
    import math
    if x in (INF, -INF):
        return x
    return Fr(math.floor(x))


def _ceil(x):
    import math
    if x in (INF, -INF):
        return x
    return Fr(math.ceil(x))


def _trunc(x):
    import math
    return Fr(math.trunc(x))


def _is_linear_in(p, a):
    for m in p.t:
        for b, pw in m:
            if b == a and pw != 1:
                return False
        # atom must not also occur inside other atoms of this polynomial
    for b in p.atoms():
        if b != a and _occurs_in(a, b):
            return False
    return True


def _occurs_in(a, b):
    """does atom a occur inside compound atom b?"""
    for x in b[1:]:
        if isinstance(x, Poly):
            for c in x.atoms():
                if c == a or _occurs_in(a, c):
                    return True
        elif isinstance(x, B):
            if _occurs_in_b(a, x):
                return True
        elif isinstance(x, tuple):
            for y in x:
                if isinstance(y, Poly):
                    for c in y.atoms():
                        if c == a or _occurs_in(a, c):
                            return True
                elif isinstance(y, B) and _occurs_in_b(a, y):
                    return True
    return False


def _occurs_in_b(a, b):
    k = b.k
    for x in k[1:]:
        if isinstance(x, Poly):
            for c in x.atoms():
                if c == a or _occurs_in(a, c):
                    return True
        elif isinstance(x, B):
            if _occurs_in_b(a, x):
                return True
        elif isinstance(x, tuple):
            for y in x:
                if isinstance(y, Poly):
                    for c in y.atoms():
                        if c == a or _occurs_in(a, c):
                            return True
                elif isinstance(y, B) and _occurs_in_b(a, y):
                    return True
    return False


def _pow_range(lo, hi, pw):
    if pw == 1:
        return lo, hi
    if pw < 0:
        if lo > 0 or hi < 0:
            l2, h2 = _pow_range(lo, hi, -pw)
            il = Fr(1) / h2 if h2 not in (INF, -INF) else Fr(0)
            ih = Fr(1) / l2 if l2 not in (INF, -INF) else Fr(0)
            return (min(il, ih), max(il, ih))
        return (-INF, INF)
    def pw_(x):
        if x in (INF, -INF):
            return x if (pw % 2 == 1 or x > 0) else INF
        return x ** pw
    if pw % 2 == 1:
        return pw_(lo), pw_(hi)
    if lo >= 0:
        return pw_(lo), pw_(hi)
    if hi <= 0:
        return pw_(hi), pw_(lo)
    return Fr(0), max(pw_(lo), pw_(hi))


def _decide_by_range(op, lo, hi):
    if op == '<':
        if hi < 0:
            return True
        if lo >= 0:
            return False
    elif op == '<=':
        if hi <= 0:
            return True
        if lo > 0:
            return False
    elif op == '==':
        if lo == hi == 0:
            return True
        if lo > 0 or hi < 0:
            return False
    elif op == '!=':
        if lo == hi == 0:
            return False
        if lo > 0 or hi < 0:
            return True
    return None


def _decide_by_range_strict(op, lo, hi):
    """lo/hi are (bound, strict?) pairs"""
    (l, ls), (h, hs) = lo, hi
    if op == '<':
        if h < 0 or (h == 0 and hs):
            return True
        if l >= 0:
            return False
    elif op == '<=':
        if h <= 0:
            return True
        if l > 0 or (l == 0 and ls):
            return False
    elif op == '==':
        if l > 0 or h < 0 or (l == 0 and ls) or (h == 0 and hs):
            return False
    elif op == '!=':
        if l > 0 or h < 0 or (l == 0 and ls) or (h == 0 and hs):
            return True
    return None


def _ratio(d, fd):
    """if d == s*fd for a rational s != 0 return s"""
    if len(d.t) != len(fd.t) or not d.t:
        return None
    s = None
    for m, c in d.t.items():
        c2 = fd.t.get(m)
        if c2 is None:
            return None
        r = c / c2
        if s is None:
            s = r
        elif s != r:
            return None
    return s


def _mask_expr(p, width_mask, leaves):
    """parse p as a bitwise expression over opaque leaves: returns a function env->bool-per-leaf evaluation tree, or None"""
    p = as_poly(p)
    c = p.const_value()
    if c is not None:
        if c == 0:
            return ('const', False)
        if c == width_mask:
            return ('const', True)
        return None
    # NOT x  ==  width_mask - x
    if p.t.get((), Fr(0)) == width_mask and len(p.t) == 2:
        rest = Poly({m: -cf for m, cf in p.t.items() if m != ()})
        inner = _mask_expr(rest, width_mask, leaves)
        if inner is not None:
            return ('not', inner)
        return None
    a = p.as_single_atom()
    if a is None:
        return None
    if a[0] in ('bitand', 'bitor', 'bitxor'):
        l = _mask_expr(a[1], width_mask, leaves)
        r = _mask_expr(a[2], width_mask, leaves)
        if l is None or r is None:
            return None
        return (a[0], l, r)
    if a not in leaves:
        leaves.append(a)
    return ('leaf', leaves.index(a))


def _mask_eval(e, env):
    k = e[0]
    if k == 'const':
        return e[1]
    if k == 'leaf':
        return env[e[1]]
    if k == 'not':
        return not _mask_eval(e[1], env)
    l, r = _mask_eval(e[1], env), _mask_eval(e[2], env)
    return (l and r) if k == 'bitand' else ((l or r) if k == 'bitor' else (l != r))


def _mask_equal(a, b):
    """two bitwise expressions (and/or/xor/not over opaque leaves) are equal if they agree as Boolean functions of the
    leaves (bitwise operators act per bit)"""
    for width_mask in (Fr(65535), Fr(255), Fr(4294967295)):
        leaves = []
        ea = _mask_expr(a, width_mask, leaves)
        eb = _mask_expr(b, width_mask, leaves)
        if ea is None or eb is None or len(leaves) > 8:
            continue
        if not any(x[0] in ('bitand', 'bitor', 'bitxor', 'not') for x in (ea, eb)):
            continue
        ok = True
        for bits in itertools.product((False, True), repeat=len(leaves)):
            if _mask_eval(ea, bits) != _mask_eval(eb, bits):
                ok = False
                break
        if ok:
            return True
    return False


def _expand_idiv(p, ctx):
    """rewrite alpha*idiv(P, c) (alpha divisible by c) as (alpha/c)*(P - mod(P, c)); None if nothing to do"""
    changed = False
    res = Poly({})
    for m, coef in p.t.items():
        done = False
        if len(m) == 1 and m[0][1] == 1 and m[0][0][0] == 'idiv':
            a = m[0][0]
            c = a[2].const_value()
            if c is not None and c > 0 and (coef / c).denominator == 1:
                res = res + (a[1] - t_mod(a[1], a[2], ctx)).scale(coef / c)
                changed = True
                done = True
        if not done:
            res = res + Poly({m: coef})
    return res if changed else None


def _affine_ratio(d, fd):
    """if d == s*fd + k for rationals s != 0, k: return (s, k)"""
    dn = {m: c for m, c in d.t.items() if m != ()}
    fn = {m: c for m, c in fd.t.items() if m != ()}
    if len(dn) != len(fn) or not dn:
        return None
    s = None
    for m, c in dn.items():
        c2 = fn.get(m)
        if c2 is None:
            return None
        r = c / c2
        if s is None:
            s = r
        elif s != r:
            return None
    k = d.t.get((), Fr(0)) - s * fd.t.get((), Fr(0))
    return s, k


def _fact_range(fop, s):
    """fact: fd fop 0; d = s*fd.  returns ((lo, strict), (hi, strict)) for d, or (None, None) for '!='."""
    if fop == '!=':
        return None, None
    if fop == '==':
        return (Fr(0), False), (Fr(0), False)
    strict = fop == '<'
    if s > 0:
        return (-INF, False), (Fr(0), strict)
    return (Fr(0), strict), (INF, False)


# ---------------------------------------------------------------------------------------
# smart constructors for opaque operations (they simplify using the context)

def t_div(p, q, ctx):
    """real division"""
    p, q = as_poly(p), as_poly(q)
    if p.is_nan() or q.is_nan():
        return NAN
    c = q.const_value()
    if c is not None and c != 0:
        return p.scale(1 / c)
    if c == 0:
        # IEEE: x/0 = +-inf for x != 0, NaN for 0/0
        pc = p.const_value()
        if pc is not None:
            if pc == 0:
                return NAN
            return Poly.atom(PINF_ATOM if pc > 0 else NINF_ATOM)
    return p * inv_poly(q)


def t_idiv(p, q, ctx):
    """floor division of non-negative integers"""
    p, q = as_poly(p), as_poly(q)
    qc = q.const_value()
    pc = p.const_value()
    if qc is not None and pc is not None and qc != 0:
        return Poly.const(pc // qc)
    if qc is not None and qc > 0:
        # split p = qc*A + R with 0 <= R < qc.  Each monomial c*m (m a product of non-negative integer atoms) is split
        # as (c div qc)*qc*m + (c mod qc)*m.
        a_part, r_part = {}, {}
        for m, c in p.t.items():
            if m == ():
                r_part[m] = c
                continue
            if c.denominator == 1 and qc.denominator == 1 and _mono_nonneg_int(m, ctx):
                qq, rr = divmod(c.numerator, qc.numerator)
                if qq:
                    a_part[m] = Fr(qq)
                if rr:
                    r_part[m] = Fr(rr)
            elif (c / qc).denominator == 1:
                a_part[m] = c / qc
            else:
                r_part[m] = c
        if a_part:
            r = Poly(r_part)
            rlo, rhi = ctx.rng(r)
            if rlo >= 0 and rhi < qc:
                return Poly(a_part)
            c0 = r_part.get((), Fr(0))
            # the constant term may be split either way round (a negative constant with a positive symbolic remainder:
            # -1000000 + 4k = -12*83333 + (4k - 4) with k >= 1)
            for kq in (c0 // qc, c0 // qc + 1):
                if kq:
                    r2 = r - Poly.const(kq * qc)
                    rlo, rhi = ctx.rng(r2)
                    if rlo >= 0 and rhi < qc:
                        return Poly(a_part) + Poly.const(kq)
        lo, hi = ctx.rng(p)
        if lo >= 0 and hi < qc:
            return ZERO
    if qc is not None and qc > 0 and qc.denominator == 1 and p.t and all(c.denominator == 1 for c in p.t.values()):
        # floor(g*a / g*b) = floor(a/b): divide out the common factor so equivalent formulas share one normal form
        from math import gcd
        g = int(qc)
        for c in p.t.values():
            g = gcd(g, abs(int(c)))
        if g > 1:
            p = p.scale(Fr(1, g))
            q = Poly.const(qc / g)
    r = Poly.atom(('idiv', p, q))
    lo, hi = ctx.rng(r)
    if lo == hi and lo not in (INF, -INF):
        return Poly.const(lo)
    return r


def _mono_nonneg_int(m, ctx):
    for a, pw in m:
        if pw < 1:
            return False
        integer = a in ctx.int_atoms or a[0] in ('idiv', 'mod', 'f2i', 'bitand', 'bitor', 'shr', 'shl')
        if not integer:
            return False
        lo, hi = ctx.atom_range(a)
        if lo < 0:
            return False
    return True


def t_mod(p, q, ctx):
    p, q = as_poly(p), as_poly(q)
    qc = q.const_value()
    pc = p.const_value()
    if qc is not None and pc is not None and qc != 0:
        return Poly.const(pc % qc)
    if qc is not None and qc > 0:
        lo, hi = ctx.rng(p)
        if lo >= 0 and hi < qc:
            return p
        a_part, r_part = {}, {}
        for m, c in p.t.items():
            if m == ():
                r_part[m] = c
                continue
            if c.denominator == 1 and qc.denominator == 1 and _mono_nonneg_int(m, ctx):
                qq, rr = divmod(c.numerator, qc.numerator)
                if qq:
                    a_part[m] = Fr(qq * qc.numerator)
                if rr:
                    r_part[m] = Fr(rr)
            elif (c / qc).denominator == 1:
                a_part[m] = c
            else:
                r_part[m] = c
        c0 = r_part.get((), Fr(0))
        if a_part or (qc.denominator == 1 and c0.denominator == 1 and abs(c0) >= qc):
            r = Poly(r_part)
            alo, _ = ctx.rng(Poly(a_part)) if a_part else (0, 0)
            rlo, rhi = ctx.rng(r)
            if rlo >= 0 and rhi < qc and alo >= 0:
                return r
            # constant multiples of the modulus drop out as well (either way round, see t_idiv); the whole value must be >= 0
            if lo >= 0:
                for kq in (c0 // qc, c0 // qc + 1):
                    if kq:
                        r2 = r - Poly.const(kq * qc)
                        rlo, rhi = ctx.rng(r2)
                        if rlo >= 0 and rhi < qc:
                            return r2
        # p in [qc, 2qc) -> p - qc
        if lo >= qc and hi < 2 * qc:
            return p - q
    return Poly.atom(('mod', p, q))


def t_min(p, q, ctx, tag='min'):
    p, q = as_poly(p), as_poly(q)
    if tag == 'fmin':
        if p.is_nan():
            return q
        if q.is_nan():
            return p
    r = ctx.decide_cmp('<=', p - q)
    if r is True:
        return p
    r2 = ctx.decide_cmp('<=', q - p)
    if r2 is True:
        return q
    a, b = sorted([p, q], key=repr)
    return Poly.atom((tag, a, b))


def t_max(p, q, ctx, tag='max'):
    p, q = as_poly(p), as_poly(q)
    if tag == 'fmax':
        if p.is_nan():
            return q
        if q.is_nan():
            return p
    r = ctx.decide_cmp('<=', p - q)
    if r is True:
        return q
    r2 = ctx.decide_cmp('<=', q - p)
    if r2 is True:
        return p
    a, b = sorted([p, q], key=repr)
    return Poly.atom((tag, a, b))


def t_abs(p, ctx):
    p = as_poly(p)
    if p.is_nan():
        return NAN
    lo, hi = ctx.rng(p)
    if lo >= 0:
        return p
    if hi <= 0:
        return -p
    # |p| and |-p| are one atom: the sign is fixed by the first monomial in a deterministic order
    if p.t:
        m0 = min(p.t, key=lambda m: repr(m))
        if p.t[m0] < 0:
            p = -p
    return Poly.atom(('abs', p))


def t_tbl(name, idx, ctx):
    idx = as_poly(idx)
    c = idx.const_value()
    tb = ctx.tables.get(name)
    if c is not None and tb is not None and c.denominator == 1 and 0 <= c < len(tb):
        return Poly.atom(('tbl', name, idx))  # keep symbolic: rules reason about cells by name
    return Poly.atom(('tbl', name, idx))


def t_f2i(p, tlo, thi, ctx):
    """saturating float -> int cast (truncation toward zero, NaN -> 0)"""
    p = as_poly(p)
    if p.is_nan():
        return ZERO
    c = p.const_value()
    if c is not None:
        return Poly.const(min(max(_trunc(c), tlo), thi))
    return Poly.atom(('f2i', p, Fr(tlo), Fr(thi)))


def t_bitand(p, q, ctx):
    p, q = _point(as_poly(p), ctx), _point(as_poly(q), ctx)
    pc, qc = p.const_value(), q.const_value()
    if pc is not None and qc is not None:
        return Poly.const(int(pc) & int(qc))
    if pc is not None:
        p, q, pc, qc = q, p, qc, pc
    # single-bit masks 1 << k:  x & (1 << k)  =  ((x >> k) mod 2) << k
    for x_, m_ in ((p, q), (q, p)):
        am = m_.as_single_atom()
        if am is not None and am[0] == 'shl' and am[1].const_value() == 1:
            return t_mod(t_shr(x_, am[2], ctx), Poly.const(2), ctx) * m_
    if qc is not None and qc >= 0 and qc.denominator == 1:
        qi = int(qc)
        if qi == 0:
            return ZERO
        if (qi & (qi + 1)) == 0:  # 2^k - 1
            return t_mod(p, Poly.const(qi + 1), ctx)
        # contiguous run of ones: m = (2^w - 1) << k  ->  ((p >> k) mod 2^w) << k
        k = (qi & -qi).bit_length() - 1
        run = qi >> k
        lo, hi = ctx.rng(p)
        if (run & (run + 1)) == 0 and lo >= 0:
            w = run.bit_length()
            inner = t_idiv(p, Poly.const(1 << k), ctx)
            return t_mod(inner, Poly.const(1 << w), ctx).scale(1 << k)
    a, b = sorted([p, q], key=repr)
    return Poly.atom(('bitand', a, b))


def pin_atoms(p, ctx):
    """substitute every atom whose range under ctx is a single point by that constant (k == 0 on this path => 12*k + n is n)"""
    p = as_poly(p)
    m = {}
    for a in p.atoms():
        lo, hi = ctx.atom_range(a)
        if lo == hi and lo not in (INF, -INF):
            m[a] = Poly.const(lo)
    return p.subst(m) if m else p


def _point(p, ctx):
    if p.const_value() is None:
        lo, hi = ctx.rng(p)
        if lo == hi and lo not in (INF, -INF):
            return Poly.const(lo)
    return p


def t_bitor(p, q, ctx):
    p, q = _point(as_poly(p), ctx), _point(as_poly(q), ctx)
    pc, qc = p.const_value(), q.const_value()
    if pc is not None and qc is not None:
        return Poly.const(int(pc) | int(qc))
    if pc == 0:
        return q
    if qc == 0:
        return p
    a, b = sorted([p, q], key=repr)
    return Poly.atom(('bitor', a, b))


def t_bitxor(p, q, ctx):
    p, q = as_poly(p), as_poly(q)
    pc, qc = p.const_value(), q.const_value()
    if pc is not None and qc is not None:
        return Poly.const(int(pc) ^ int(qc))
    a, b = sorted([p, q], key=repr)
    return Poly.atom(('bitxor', a, b))


def t_shl(p, q, ctx):
    p, q = as_poly(p), as_poly(q)
    qc = q.const_value()
    if qc is not None and qc >= 0:
        return p.scale(1 << int(qc))
    return Poly.atom(('shl', p, q))


def t_shr(p, q, ctx):
    p, q = as_poly(p), as_poly(q)
    qc = q.const_value()
    if qc is not None and qc >= 0:
        return t_idiv(p, Poly.const(1 << int(qc)), ctx)
    return Poly.atom(('shr', p, q))


def t_frem(p, q, ctx):
    """float remainder (sign of dividend)"""
    p, q = as_poly(p), as_poly(q)
    if p.is_nan() or q.is_nan():
        return NAN
    pc, qc = p.const_value(), q.const_value()
    if pc is not None and qc is not None and qc != 0:
        import math
        r = abs(pc) - abs(qc) * math.floor(abs(pc) / abs(qc))
        return Poly.const(r if pc >= 0 else -r)
    lo, hi = ctx.rng(p)
    if qc is not None and qc > 0 and lo >= 0 and hi < qc:
        return p
    return Poly.atom(('frem', p, q))


def t_app(fname, args):
    return Poly.atom(('app', fname, tuple(args)))


def b_app(fname, args):
    return B(('app', fname, tuple(args)))


def f32_from_bits(bits):
    import struct
    f = struct.unpack('<f', struct.pack('<I', bits & 0xFFFFFFFF))[0]
    return f


def f64_from_bits(bits):
    import struct
    return struct.unpack('<d', struct.pack('<Q', bits & 0xFFFFFFFFFFFFFFFF))[0]


def float_const(bits, w):
    import math
    f = f32_from_bits(bits) if w == 32 else f64_from_bits(bits)
    if math.isnan(f):
        return NAN
    if math.isinf(f):
        a = ('sym', '+inf' if f > 0 else '-inf')
        return Poly.atom(a)
    return Poly.const(Fr(f))


def rebuild(p, mapping, ctx, tables=None):
    """Deep substitution with re-evaluation: atoms in `mapping` are replaced, compound atoms are rebuilt from their
    (recursively rebuilt) arguments through the constructors, so that constant arguments fold (mod(5+1, 1023) -> 6,
    tbl(name, 6) -> the table entry when `tables` is given)."""
    p = as_poly(p)
    res = Poly({})
    for m, c in p.t.items():
        term = Poly.const(c)
        for a, pw in m:
            v = _rebuild_atom(a, mapping, ctx, tables)
            if pw < 0:
                cv = v.const_value()
                v = Poly.const(Fr(1) / cv) if cv not in (None, 0) else inv_poly(v)
                term = term * v.pow(-pw)
            else:
                term = term * v.pow(pw)
        res = res + term
    return res


def _rebuild_atom(a, mapping, ctx, tables):
    if a in mapping:
        return as_poly(mapping[a])
    tag = a[0]
    R = lambda x: rebuild(x, mapping, ctx, tables)
    if tag in ('sym', 'nan', 'app', 'tan') or a in (PINF_ATOM, NINF_ATOM):
        return Poly.atom(a)
    if tag == 'tbl':
        idx = R(a[2])
        c = idx.const_value()
        if tables is not None and c is not None and a[1] in tables and c.denominator == 1 and 0 <= c < len(tables[a[1]]):
            return Poly.const(Fr(tables[a[1]][int(c)]))
        return Poly.atom(('tbl', a[1], idx))
    if tag == 'mod':
        return t_mod(R(a[1]), R(a[2]), ctx)
    if tag == 'idiv':
        return t_idiv(R(a[1]), R(a[2]), ctx)
    if tag in ('min', 'fmin'):
        return t_min(R(a[1]), R(a[2]), ctx, tag)
    if tag in ('max', 'fmax'):
        return t_max(R(a[1]), R(a[2]), ctx, tag)
    if tag == 'abs':
        return t_abs(R(a[1]), ctx)
    if tag == 'f2i':
        return t_f2i(R(a[1]), a[2], a[3], ctx)
    if tag == 'frem':
        return t_frem(R(a[1]), R(a[2]), ctx)
    if tag == 'bitand':
        return t_bitand(R(a[1]), R(a[2]), ctx)
    if tag == 'bitor':
        return t_bitor(R(a[1]), R(a[2]), ctx)
    if tag == 'bitxor':
        return t_bitxor(R(a[1]), R(a[2]), ctx)
    if tag == 'shl':
        return t_shl(R(a[1]), R(a[2]), ctx)
    if tag == 'shr':
        return t_shr(R(a[1]), R(a[2]), ctx)
    if tag == 'inv':
        v = R(a[1])
        cv = v.const_value()
        return Poly.const(Fr(1) / cv) if cv not in (None, 0) else inv_poly(v)
    # ite / wrap / wrapcast and anything else: rebuild polynomial arguments structurally, keep the rest
    return Poly.atom(tuple(R(x) if isinstance(x, Poly) else x for x in a))
