"""Shared rule infrastructure: obligations, violations, evidence, known findings."""
import json
import os
import time

from .facts import VERIF


class Ob:
    """one obligation of a rule instance"""
    __slots__ = ('rule', 'instance', 'ok', 'detail', 'where', 'key', 'nontrivial')

    def __init__(self, rule, instance, ok, detail='', where='', key=None, nontrivial=True):
        self.rule = rule
        self.instance = instance
        self.ok = ok
        self.detail = detail
        self.where = where
        self.key = key or '%s:%s' % (rule, instance)
        self.nontrivial = nontrivial

    def to_json(self):
        return {'rule': self.rule, 'instance': self.instance, 'ok': self.ok, 'detail': self.detail,
                'where': self.where, 'key': self.key}


class Result:
    def __init__(self, prop):
        self.prop = prop
        self.obs = []
        self.notes = []
        self.floors = {}      # name -> (measured, floor)
        self.extra = {}
        self.functions = set()
        self.models = set()
        self.partitions = 0
        self._seen_interps = set()
        self.unmodelled = []

    def ob(self, rule, instance, ok, detail='', where='', key=None, nontrivial=True):
        o = Ob(rule, instance, bool(ok), detail, where, key, nontrivial)
        self.obs.append(o)
        return o.ok

    def floor(self, name, measured, floor):
        """fail closed when an instance count falls below what was confirmed by hand"""
        self.floors[name] = (measured, floor)
        self.ob('FLOOR', name, measured >= floor,
                'instances found: %d, floor: %d' % (measured, floor), key='FLOOR:%s' % name, nontrivial=False)

    def absorb(self, interp):
        self.functions |= set(interp.fns_analysed)
        self.models |= set(interp.models_used)
        if id(interp) not in self._seen_interps:
            self._seen_interps.add(id(interp))
            self.partitions += 1
        self.extra['abstract_states_explored'] = self.extra.get('abstract_states_explored', 0) + interp.stats.get('states', 0)
        interp.stats['states'] = 0
        for u in interp.unmodelled:
            if u not in self.unmodelled:
                self.unmodelled.append(u)

    def violations(self):
        return [o for o in self.obs if not o.ok]


def load_known():
    p = os.path.join(VERIF, 'known_findings.json')
    if not os.path.exists(p):
        return []
    return json.load(open(p)).get('findings', [])


def finish(res, tier, level, t0, facts_key, assumptions, explanation, trusted_base=None, seed=0):
    """write evidence, print VIOLATION / KNOWN-FINDING lines, return exit code"""
    known = [k for k in load_known() if k.get('status') == 'known' and k.get('property') == res.prop]
    known_keys = {k['key']: k for k in known if 'key' in k}
    viol = res.violations()
    new_viol = []
    reported_known = []
    for v in viol:
        k = known_keys.get(v.key)
        if k is not None:
            if v.key not in reported_known:
                print('KNOWN-FINDING: property=%s %s' % (res.prop, k.get('what', v.key)))
                reported_known.append(v.key)
        else:
            new_viol.append(v)
    res.extra['known_findings_reported'] = reported_known
    n = len(res.obs)
    discharged = sum(1 for o in res.obs if o.ok)
    distinct = len({o.key for o in res.obs if o.nontrivial})
    samples = []
    seen_rules = set()
    for o in res.obs:
        if o.rule not in seen_rules or not o.ok:
            seen_rules.add(o.rule)
            samples.append(o.to_json())
        if len(samples) >= 40:
            break
    cov = {
        'evaluations': n,
        'distinct_nontrivial': distinct,
        'rule': 'one evaluation per obligation of a rule instance (rule x site/method/partition); an obligation is '
                'non-trivial when it was decided from abstract values computed from the MIR of /repo (floors and '
                'bookkeeping obligations are excluded); distinct = distinct obligation keys',
        'samples': samples,
        'obligations': n,
        'discharged': discharged,
        'checker_cmd': './check %s --tier %s' % (res.prop, tier),
        'trusted_base': trusted_base or [],
        'explanation': explanation,
        'functions_analysed': sorted(res.functions),
        'models_used': sorted(res.models),
        'partitions': res.partitions,
        'unmodelled_callees_met': res.unmodelled[:40],
        'floors': {k: {'measured': v[0], 'floor': v[1]} for k, v in res.floors.items()},
        'facts_key': facts_key,
        'rules': sorted({o.rule for o in res.obs}),
        'exhaustive': True,
    }
    cov.update(res.extra)
    ev = {
        'property_id': res.prop,
        'tier': tier,
        'seed': seed,
        'level': level,
        'coverage': cov,
        'assumptions': assumptions,
        'wall_s': round(time.time() - t0, 3),
        'violations': len(new_viol),
        'notes': res.notes[:50],
    }
    evdir = os.environ.get('VERIF_SELFTEST_EVIDENCE', os.path.join(VERIF, 'evidence'))
    os.makedirs(evdir, exist_ok=True)
    with open(os.path.join(evdir, res.prop + '.json'), 'w') as f:
        json.dump(ev, f, indent=1, default=str)
    if new_viol:
        vd = os.path.join(evdir, 'violations')
        os.makedirs(vd, exist_ok=True)
        path = os.path.join(vd, '%s.json' % res.prop)
        with open(path, 'w') as f:
            json.dump({'property': res.prop, 'tier': tier, 'facts_key': facts_key,
                       'violations': [v.to_json() for v in new_viol]}, f, indent=1, default=str)
        for v in new_viol[:25]:
            print('  violation: [%s] %s :: %s %s' % (v.rule, v.instance, v.detail, ('@ ' + v.where) if v.where else ''))
        print('VIOLATION property=%s replay=%s' % (res.prop, path))
        return 1
    print('OK property=%s tier=%s obligations=%d discharged=%d wall=%.1fs' % (res.prop, tier, n, discharged, time.time() - t0))
    return 0
