"""Constructor-established relations between fields that are never written again (E1: "frozen fields").

A method analysed from an arbitrary (symbolic) object state normally knows nothing about a private field.  That is exactly
right for state the methods write, and needlessly weak for a field that caches something at construction time
(`fraction_mask`, `buff_capacity`, `hysteresis`, coefficients for the fastest setting): such a field still holds, in every
reachable object, what the constructor put there.  This module decides that from the shape of the code alone:

  frozen(S, f)  iff  every aggregate expression building an `S` occurs in one function C (the constructor), and no function of
                     any analysed crate other than C contains (a) an assignment or call destination whose place goes through
                     field f of an S, or (b) a mutable borrow / raw mutable address of such a place.

Values of type S then only ever come out of C (moves, swaps and whole-object assignments carry a complete object along, so
relations *inside* one object survive them), and f is not touched afterwards: whatever relation C establishes between
frozen fields of the object it returns holds for every S.  The relation itself is obtained by running C once on symbolic
arguments with the ordinary abstract interpreter: a frozen leaf whose value is a constructor argument names that argument
(`fs` = sample rate), and every other frozen leaf whose term mentions only such named arguments, generic parameters and
constants is *linked*: the symbolic object handed to the rules carries that term instead of a fresh unknown.

Anything that does not fit (several constructors, a field written anywhere, a term over an argument no frozen field keeps)
simply yields no link; the field then stays unknown as before.  A link can therefore only add true facts about reachable
objects, never hide a write: the write would unfreeze the field.
"""
from .terms import Poly

SCAN_CRATES = ('synth_utils', 'biquad', 'midi_convert', 'midi_types')


def _field_steps(fn, place):
    """(owner adt path, field index) of every field step of `place`, found by walking the types along the projection"""
    loc = fn.get('locals') or []
    l = place.get('l')
    if not isinstance(l, int) or l >= len(loc):
        return []
    ty = loc[l]['ty']
    out = []
    for s in place.get('p') or []:
        k = s.get('k')
        if k == 'deref':
            ty = (ty or {}).get('ty') if isinstance(ty, dict) and ty.get('k') in ('ref', 'ptr') else None
        elif k == 'field':
            if isinstance(ty, dict) and ty.get('k') == 'adt' and not ty.get('_variant'):
                out.append((ty.get('path'), s.get('i')))
            elif ty is None:
                out.append((None, s.get('i')))      # owner unknown (raw pointer, Box contents, ...): named below as "any"
            ty = s.get('ty')
        elif k == 'downcast':
            ty = dict(ty or {}, _variant=True)
        elif k in ('index', 'constindex', 'subslice'):
            ty = (ty or {}).get('ty') if isinstance(ty, dict) and ty.get('k') in ('array', 'slice') else None
        else:
            ty = None
    return out


def scan(facts):
    """one pass over every function body of the analysed crates:
    ctors[S] = set of functions holding an aggregate of S; writes[(S, i)] = set of functions writing / mutably borrowing it"""
    if getattr(facts, '_frozen_scan', None) is not None:
        return facts._frozen_scan
    ctors, writes = {}, {}
    unknown_owner = set()

    def wr(fn, place, local_only_ok):
        steps = _field_steps(fn, place)
        for owner, i in steps:
            if owner is None:
                unknown_owner.add(fn['path'])
                continue
            writes.setdefault((owner, i), set()).add((fn['path'], bool(local_only_ok)))

    for c in SCAN_CRATES:
        for fn in facts.crates.get(c, {}).get('fns', []):
            nargs = fn.get('arg_count', 0)
            bodies = [fn] + [p for p in (fn.get('promoted') or []) if isinstance(p, dict) and 'blocks' in p]
            for body in bodies:
                for b in body.get('blocks') or []:
                    for s in b.get('stmts') or []:
                        if s.get('k') != 'assign':
                            continue
                        pl = s['place']
                        # a write straight into a local of the function itself (no deref, not an argument) builds a value this
                        # function owns: only relevant when the function is the constructor, which is executed anyway
                        own = isinstance(pl.get('l'), int) and pl['l'] > nargs and not any(x.get('k') == 'deref' for x in pl.get('p') or [])
                        bfn = fn if body is fn else dict(body, path=fn['path'], arg_count=0)
                        if pl.get('p'):
                            wr(bfn, pl, own)
                        rv = s.get('rv') or {}
                        if rv.get('k') == 'ref' and rv.get('mut') and (rv.get('place') or {}).get('p'):
                            rp = rv['place']
                            own2 = isinstance(rp.get('l'), int) and rp['l'] > nargs and not any(x.get('k') == 'deref' for x in rp.get('p') or [])
                            wr(bfn, rp, own2)
                        if rv.get('k') in ('addr_of', 'raw', 'rawptr') and (rv.get('place') or {}).get('p'):
                            wr(bfn, rv['place'], False)
                        if rv.get('k') == 'aggregate' and rv.get('agg') == 'adt':
                            if fn.get('derived') and fn['path'].endswith('as core::clone::Clone>::clone'):
                                continue    # a derived field-wise clone copies a complete object: relations inside it survive
                            ctors.setdefault(rv.get('path'), set()).add(fn['path'])
                    t = b.get('term') or {}
                    if t.get('k') == 'call' and (t.get('dest') or {}).get('p'):
                        bfn = fn if body is fn else dict(body, path=fn['path'], arg_count=0)
                        wr(bfn, t['dest'], False)
    facts._frozen_scan = (ctors, writes, unknown_owner)
    return facts._frozen_scan


def frozen_fields(facts, spath):
    """(constructor path, {field index}) of struct `spath`, or (None, reason)"""
    adt = facts.adts.get(spath)
    if adt is None or adt.get('kind') != 'struct':
        return None, 'not a struct of the analysed crates'
    real = adt['path']
    ctors, writes, unknown_owner = scan(facts)
    cs = ctors.get(real, set())
    if len(cs) != 1:
        return None, '%d functions build a %s' % (len(cs), real.split('::')[-1])
    ctor = next(iter(cs))
    if unknown_owner:
        # a field written through a place whose owner type could not be followed might be any field: nothing is frozen
        return None, 'writes through untyped places in %s' % sorted(unknown_owner)[:3]
    fr = set()
    for i, f in enumerate(adt['variants'][0]['fields']):
        ws = writes.get((real, i), set())
        if all(p == ctor and own for p, own in ws):
            fr.add(i)
    return ctor, fr


def _leaves(v, prefix=()):
    """numeric / boolean leaves of an abstract value with their index paths"""
    from .interp import Num, BoolV, StructV, TupleV
    if isinstance(v, (Num, BoolV)):
        yield prefix, v
    elif isinstance(v, StructV):
        for i, f in enumerate(v.fields):
            yield from _leaves(f, prefix + (i,))
    elif isinstance(v, TupleV):
        for i, f in enumerate(v.items):
            yield from _leaves(f, prefix + (i,))


def _get(v, path):
    from .interp import StructV, TupleV
    for i in path:
        if isinstance(v, StructV):
            v = v.fields[i]
        elif isinstance(v, TupleV):
            v = v.items[i]
        else:
            return None
    return v


def _set(v, path, new):
    from .interp import StructV, TupleV
    for i in path[:-1]:
        v = v.fields[i] if isinstance(v, StructV) else v.items[i]
    if isinstance(v, StructV):
        v.fields[path[-1]] = new
    else:
        v.items[path[-1]] = new


def _deep_syms(p, out):
    stack = [p]
    while stack:
        q = stack.pop()
        if not isinstance(q, Poly):
            continue
        for a in q.atoms():
            if a[0] == 'sym':
                out.add(a)
            for x in a[1:]:
                if isinstance(x, Poly):
                    stack.append(x)
                elif isinstance(x, tuple):
                    stack.extend(y for y in x if isinstance(y, Poly))
    return out


def ctor_relation(it, spath, tenv):
    """run the constructor of `spath` on symbolic arguments; returns (ctor path, frozen set, result StructV, State) or None"""
    from .interp import Interp, State, StructV, InterpError
    facts = it.facts
    key = (facts.adts.get(spath) or {}).get('path'), repr(sorted((k, repr(v)) for k, v in (tenv or {}).items()))
    cache = facts.__dict__.setdefault('_frozen_rel', {})
    if key in cache:
        return cache[key]
    cache[key] = None          # recursion guard: the constructor's own symbolic arguments must not ask again
    ctor, fr = frozen_fields(facts, spath)
    if ctor is None or not fr:
        return None
    fn = facts.fns.get(ctor)
    adt = facts.adts.get(spath)
    if fn is None or fn.get('kind') == 'closure' or '{closure' in ctor:
        return None
    # generic arguments of the constructor's impl, by position in the type's own parameter list
    genv = {}
    try:
        iargs = ((fn.get('impl_of') or {}).get('self_ty') or {}).get('args') or []
        for g, a in zip(adt.get('generics') or [], iargs):
            val = (tenv or {}).get(g['name'])
            if val is None:
                continue
            pn = (a.get('const') or {}).get('param') if 'const' in a else ((a.get('ty') or {}).get('name') if (a.get('ty') or {}).get('k') == 'param' else None)
            if pn:
                genv[pn] = val
    except (AttributeError, TypeError):
        return None
    sub = Interp(facts, models=it.models, max_states=400)
    sub.no_frozen = True
    st = State()
    st.ctx.tables = facts.tables
    args = []
    try:
        for i in range(1, fn.get('arg_count', 0) + 1):
            args.append(sub.sym_value(st, fn['locals'][i]['ty'], 'ctor_arg%d' % i, genv))
        outs = sub.run(sub.start(ctor, args, genv=genv, state=st))
    except (InterpError, KeyError, IndexError, TypeError, ValueError, AttributeError, RecursionError):
        return None
    rets = [o for o in outs if o.status == 'returned' and isinstance(o.ret, StructV)]
    if not rets or any(o.status == 'stuck' for o in outs):
        return None
    cache[key] = (ctor, fr, rets)
    return cache[key]


def link(it, st, sv, spath, tenv, name):
    """replace linked frozen leaves of the fresh symbolic object `sv` by their constructor terms; returns the list of links
    made as (leaf name, term) for the evidence"""
    from .interp import Num, BoolV
    from .terms import rebuild
    rel = ctor_relation(it, spath, tenv)
    if not rel:
        return []
    ctor, fr, rets = rel
    if len(sv.fields) != len(rets[0].ret.fields):
        return []
    made = []
    per_out = []
    for o in rets:
        rv = o.ret
        # arguments kept verbatim by a frozen leaf
        amap = {}
        for i in sorted(fr):
            for pth, leaf in _leaves(rv.fields[i], (i,)):
                if isinstance(leaf, Num):
                    a = leaf.term.as_single_atom()
                    mine = _get(sv, pth)
                    if a is not None and a[0] == 'sym' and str(a[1]).startswith('ctor_arg') and isinstance(mine, Num) and a not in amap:
                        amap[a] = mine.term
        links = {}
        for i in sorted(fr):
            for pth, leaf in _leaves(rv.fields[i], (i,)):
                mine = _get(sv, pth)
                if not isinstance(leaf, Num) or not isinstance(mine, Num) or leaf.ty != mine.ty:
                    continue
                a = leaf.term.as_single_atom()
                if a is not None and a in amap:
                    continue
                try:
                    t = rebuild(leaf.term, amap, st.ctx, it.facts.tables)
                except Exception:
                    continue
                syms = _deep_syms(t, set())
                allowed = {x for m in amap.values() for x in _deep_syms(m, set())}
                if all(s in allowed or str(s[1]).startswith('param:') for s in syms):
                    links[pth] = t
        per_out.append(links)
    common = {p: t for p, t in per_out[0].items() if all(p in l and l[p] == t for l in per_out[1:])}
    for pth, t in common.items():
        mine = _get(sv, pth)
        # the unknown it replaces must not stay behind with a range nobody refines
        _set(sv, pth, Num(t, mine.ty))
        made.append(('.'.join(str(i) for i in pth), t))
    if made:
        rec = it.facts.__dict__.setdefault('frozen_links', {})
        rec.setdefault(spath, {'constructor': ctor, 'links': {}})['links'].update(
            {'%s%s' % (name, ''.join('.' + _fname(it.facts, spath, sv, p) for p in [pth])): repr(t) for pth, t in common.items()})
    return made


def _fname(facts, spath, sv, pth):
    try:
        return sv.names[pth[0]] + ''.join('.%d' % i for i in pth[1:])
    except Exception:
        return '.'.join(str(i) for i in pth)
