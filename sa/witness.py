"""E3: type-level witnesses.  Tiny programs compiled (never run) against /repo's current tree with the nightly
toolchain; every compile-fail witness is paired with a compiling twin that differs only in the offending line,
and the expected error code is checked."""
import json
import os
import shutil
import subprocess
import tempfile

PRELUDE = '''#![allow(unused)]
use synth_utils::adsr::{Adsr, Input, TimePeriod, SustainLevel};
use synth_utils::lfo::{Lfo, Waveshape};
use synth_utils::quantizer::{Quantizer, Note, Conversion};
use synth_utils::mono_midi_receiver::MonoMidiReceiver;
use synth_utils::glide_processor::GlideProcessor;
use synth_utils::ribbon_controller::RibbonController;
'''

# name -> (group, body, expected error code or None for "must compile")
WITNESSES = {
    # W1: the clamping conversions are the only way to build / alter the parameter newtypes
    'w1_tp_ctor_fail': ('W1', 'fn f() { let _t = TimePeriod(5.0); }', 'E0423|E0603'),
    'w1_tp_ctor_twin': ('W1', 'fn f() { let _t: TimePeriod = 5.0_f32.into(); }', None),
    'w1_sl_ctor_fail': ('W1', 'fn f() { let _s = SustainLevel(2.0); }', 'E0423|E0603'),
    'w1_sl_ctor_twin': ('W1', 'fn f() { let _s: SustainLevel = 2.0_f32.into(); }', None),
    'w1_note_ctor_fail': ('W1', 'fn f() { let _n = Note(40); }', 'E0423|E0603'),
    'w1_note_ctor_twin': ('W1', 'fn f() { let _n = Note::new(40); }', None),
    'w1_tp_field_fail': ('W1', 'fn f(mut t: TimePeriod) { t.0 = 99.0; }', 'E0616'),
    'w1_tp_field_twin': ('W1', 'fn f(mut t: TimePeriod) { t = 99.0_f32.into(); }', None),
    'w1_note_field_fail': ('W1', 'fn f(mut n: Note) { n.0 = 40; }', 'E0616'),
    'w1_note_field_twin': ('W1', 'fn f(mut n: Note) { n = Note::new(40); }', None),
    # W2: observation goes through &T (cannot disturb state); mutation needs &mut
    'w2_getters_pass': ('W2', '''fn a(x: &Adsr) -> f32 { x.value() }
fn l(x: &Lfo) -> f32 { x.get(Waveshape::Sine) + x.get(Waveshape::Triangle) }
fn q(x: &Quantizer) -> bool { x.is_allowed(Note::C) }
fn m(x: &MonoMidiReceiver) -> (u8, f32, f32, bool) { (x.note_num(), x.velocity(), x.pitch_bend(), x.gate()) }
fn r<const N: usize>(x: &RibbonController<N>) -> (f32, bool) { (x.value(), x.finger_is_pressing()) }''', None),
    'w2_lfo_tick_fail': ('W2', 'fn l(x: &Lfo) { x.tick(); }', 'E0596'),
    'w2_lfo_tick_twin': ('W2', 'fn l(x: &mut Lfo) { x.tick(); }', None),
    'w2_adsr_tick_fail': ('W2', 'fn a(x: &Adsr) { x.tick(); }', 'E0596'),
    'w2_adsr_tick_twin': ('W2', 'fn a(x: &mut Adsr) { x.tick(); }', None),
    # W3: private state is not reachable from outside
    'w3_adsr_state_fail': ('W3', 'fn a(x: &Adsr) { let _ = &x.state; }', 'E0616'),
    'w3_lfo_acc_fail': ('W3', 'fn l(x: &Lfo) { let _ = &x.phase_accumulator; }', 'E0616'),
    'w3_quant_mask_fail': ('W3', 'fn q(x: &mut Quantizer) { x.allowed = 0; }', 'E0616'),
    'w3_midi_gate_fail': ('W3', 'fn m(x: &mut MonoMidiReceiver) { x.gate = true; }', 'E0616'),
    'w3_twin': ('W3', 'fn a(x: &Adsr) -> f32 { x.value() }\nfn q(x: &mut Quantizer) { x.allow(&[Note::C]); }', None),
}


def run_witnesses(res, groups, repo='/repo'):
    base = tempfile.mkdtemp(prefix='witness-')
    try:
        crate = os.path.join(base, 'w')
        os.makedirs(os.path.join(crate, 'src', 'bin'))
        with open(os.path.join(crate, 'Cargo.toml'), 'w') as f:
            f.write('[package]\nname = "w"\nversion = "0.0.0"\nedition = "2021"\n\n[dependencies]\nsynth-utils = { path = "%s" }\n\n[workspace]\n' % repo)
        lock = os.path.join(repo, 'Cargo.lock')
        if os.path.exists(lock):
            shutil.copy(lock, os.path.join(crate, 'Cargo.lock'))
        names = [n for n, w in WITNESSES.items() if w[0] in groups]
        for n in names:
            with open(os.path.join(crate, 'src', 'bin', n + '.rs'), 'w') as f:
                f.write(PRELUDE + WITNESSES[n][1] + '\nfn main() {}\n')
        env = dict(os.environ, CARGO_NET_OFFLINE='true', CARGO_TARGET_DIR=os.path.join(base, 'target'))
        # build the dependency once
        for n in names:
            r = subprocess.run(['cargo', '+nightly', 'check', '--offline', '--bin', n, '--message-format=json'], cwd=crate, env=env,
                               stdout=subprocess.PIPE, stderr=subprocess.PIPE, text=True)
            codes = []
            for line in r.stdout.splitlines():
                try:
                    m = json.loads(line)
                except ValueError:
                    continue
                if m.get('reason') == 'compiler-message' and m['message'].get('level') == 'error':
                    c = (m['message'].get('code') or {}).get('code')
                    if c:
                        codes.append(c)
            grp, body, want = WITNESSES[n]
            if want is None:
                ok = r.returncode == 0
                detail = 'must compile; cargo exit %d, errors %s %s' % (r.returncode, codes, r.stderr[-300:] if r.returncode else '')
            else:
                ok = r.returncode != 0 and len(codes) == 1 and codes[0] in want.split('|')
                detail = 'must fail with exactly %s; cargo exit %d, errors %s' % (want, r.returncode, codes)
            res.ob('WITNESS-' + grp, n, ok, detail + ' :: ' + body.splitlines()[0], key='WITNESS:' + n)
    finally:
        shutil.rmtree(base, ignore_errors=True)
