"""Rules for the ribbon controller: C15 (R-RIBBON) and C16 (R-AVG).

poll() is summarised over the partition  (sample in range?) x (settling count reached?) x (buffer full?) x
(pressing, just_pressed, just_released); the buffer is an uninterpreted HistoryBuffer term, the capacity a
const-generic symbol N tied to the helper's formula N = main + discard + 1.
"""
import copy
from fractions import Fraction as Fr

from ..terms import (Poly, B, INF, TRUE, FALSE, ZERO, ONE, NAN, bconst, bnot, cmp_term, as_poly, inv_poly, t_idiv, t_f2i, t_app)
from ..interp import (Interp, State, Num, BoolV, StructV, EnumV, TupleV, RefV, ContV, Opaque, UnitV, InterpError)
from .common import *

RC = 'synth_utils::ribbon_controller::RibbonController'
RC_FIELDS = {'finger_press_high_boundary', 'error_const', 'current_val', 'finger_is_pressing', 'finger_just_pressed', 'finger_just_released',
             'buff', 'num_to_ignore_up_front', 'num_to_discard_at_end', 'num_samples_received', 'num_samples_written'}
RCF = 'synth_utils::ribbon_controller::RibbonController::<BUFFER_CAPACITY>::'
HELPER = 'synth_utils::ribbon_controller::sample_rate_to_capacity'
FS_MIN, FS_MAX = 100, 192000
COUNTERS = ('num_samples_received', 'num_samples_written')


class Rb:
    def __init__(self, facts):
        self.facts = facts
        adt = facts.adt(RC)
        self.names = [f['name'] for f in adt['variants'][0]['fields']]
        need = ['finger_press_high_boundary', 'error_const', 'current_val', 'finger_is_pressing', 'finger_just_pressed',
                'finger_just_released', 'buff', 'num_to_ignore_up_front', 'num_to_discard_at_end'] + list(COUNTERS)
        miss = [n for n in need if n not in set(self.names) | set(adt.get('canon_paths') or {})]
        # the two self-clearing edge flags may live in another private representation (a two-bit set, one enum, ...): they are then
        # defined by what `finger_just_pressed()` / `finger_just_released()` would return, and set through the carrier fields
        self.latch_carriers, self.latch_map = None, {}
        self.has_fields = not ({'finger_just_pressed', 'finger_just_released'} & set(miss))
        if {'finger_just_pressed', 'finger_just_released'} & set(miss):
            self._find_latch_carriers(adt, set(need))
            if len(self.latch_map) == 4:
                miss = [n for n in miss if n not in ('finger_just_pressed', 'finger_just_released')]
                RC_FIELDS.update(self.latch_carriers)
        if miss:
            raise InterpError('RibbonController fields missing (anchor changed): %s' % miss)

    def _find_latch_carriers(self, adt, canon):
        import itertools
        cands = []
        for f in adt['variants'][0]['fields']:
            if f['name'] in canon:
                continue
            ty = f['ty']
            if ty.get('k') == 'bool':
                cands.append((f['name'], [BoolV(bconst(False)), BoolV(bconst(True))]))
            elif ty.get('k') in ('int', 'uint'):
                cands.append((f['name'], [Num(Poly.const(i), ty['n']) for i in range(4)]))
            elif ty.get('k') == 'adt':
                sub = self.facts.adts.get(ty.get('path'))
                if sub and sub.get('crate') == 'synth_utils' and sub.get('kind') == 'enum' and len(sub['variants']) <= 4 \
                        and all(not v.get('fields') for v in sub['variants']):
                    cands.append((f['name'], [make_enum(self.facts, ty['path'], v['name']) for v in sub['variants']]))
                elif sub and sub.get('crate') == 'synth_utils' and sub.get('kind') == 'struct' and len(sub['variants'][0]['fields']) == 1 \
                        and sub['variants'][0]['fields'][0]['ty'].get('k') in ('int', 'uint'):
                    # a small bit set held in a newtype (`EdgeSet(u8)`): the four values of its two low bits
                    g = sub['variants'][0]['fields'][0]
                    cands.append((f['name'], [StructV(sub['path'], [g['name']], [Num(Poly.const(i), g['ty']['n'])]) for i in range(4)]))
        if not cands or len(cands) > 2:
            return
        self.latch_carriers = [c[0] for c in cands]
        for combo in itertools.product(*[c[1] for c in cands]):
            it = Interp(self.facts)
            st = State()
            rc, N = self.controller(it, st)
            for (nm, _), v in zip(cands, combo):
                rc.set(nm, copy.deepcopy(v))
            a = self._peek(st.ctx, rc, N, 'finger_just_pressed')
            b = self._peek(st.ctx, rc, N, 'finger_just_released')
            if a is None or b is None:
                continue
            self.latch_map.setdefault((a, b), [copy.deepcopy(v) for v in combo])

    def _peek(self, ctx, rc, N, getter):
        """what the (self-clearing) edge getter would return on this state: True / False / None (undecided)"""
        with structural():
            it = Interp(self.facts)
            st = State()
            st.ctx = ctx.copy()
            try:
                outs, cell = run_method(it, st, RCF + getter, copy.deepcopy(rc), [], genv={'BUFFER_CAPACITY': N})
            except InterpError:
                return None
        vals = {bool_of(o.ctx, o.ret) for o in outs if o.status == 'returned'}
        return next(iter(vals)) if len(vals) == 1 and None not in vals else None

    def flag(self, ctx, rc, name):
        """value of one of the three flags of a state: the field, or what the getter of that name would return"""
        if rc.has(name):
            return bool_of(ctx, rc.get(name))
        return self._peek(ctx, rc, Poly.sym('param:BUFFER_CAPACITY'), name)

    def show(self, rc, name):
        return rc.get(name) if rc.has(name) else {c: rc.get(c) for c in (self.latch_carriers or [])}

    def controller(self, it, st, pressing=None, jp=None, jr=None):
        N = st.ctx.sym_range('param:BUFFER_CAPACITY', 2, 2 ** 20, integer=True)
        ty = adt_ty(RC, [{'const': {'param': 'BUFFER_CAPACITY'}}])
        rc = it.sym_value(st, ty, 'self', genv={'BUFFER_CAPACITY': N})
        ctx = st.ctx

        def rng(name, lo, hi, integer=False):
            a = rc.get(name).term.as_single_atom()
            ctx.ranges[a] = (Fr(lo), Fr(hi) if hi != INF else INF)
            if integer:
                ctx.int_atoms.add(a)
        rng('finger_press_high_boundary', Fr(1, 1000), 1)
        rng('error_const', 0, 1)
        rng('num_to_ignore_up_front', 0, 2 ** 20, True)
        rng('num_to_discard_at_end', 0, 2 ** 20, True)
        rng('num_samples_received', 0, 2 ** 20, True)
        rng('num_samples_written', 0, 2 ** 20, True)
        g = lambda n: rc.get(n).term
        # class invariant: received <= ignore, written <= N, N = main + discard + 1 > discard
        ctx.assume(cmp_term('Le', g('num_samples_received'), g('num_to_ignore_up_front')))
        ctx.assume(cmp_term('Le', g('num_samples_written'), N))
        ctx.assume(cmp_term('Lt', g('num_to_discard_at_end'), N))
        buf = rc.get('buff')
        if not isinstance(buf, ContV) or buf.kind != 'hist':
            raise InterpError('RibbonController.buff is not a heapless HistoryBuffer: %r' % (buf,))
        buf.cap = N

        def setb(name, v):
            if v is not None:
                rc.set(name, BoolV(bconst(v)))
        setb('finger_is_pressing', pressing)
        if rc.has('finger_just_pressed') and rc.has('finger_just_released'):
            setb('finger_just_pressed', jp)
            setb('finger_just_released', jr)
        elif jp is not None or jr is not None:
            want = [k for k in self.latch_map if (jp is None or k[0] == jp) and (jr is None or k[1] == jr)]
            if not want:
                raise InterpError('no state of %s has just_pressed=%s just_released=%s' % (self.latch_carriers, jp, jr))
            for nm, v in zip(self.latch_carriers, self.latch_map[sorted(want)[0]]):
                rc.set(nm, copy.deepcopy(v))
        return rc, N


def bool_of(ctx, v):
    return ctx.decide(v.b) if isinstance(v, BoolV) else None


def check_poll(res, facts, prop):
    rb = Rb(facts)
    where = where_of(facts, RCF + 'poll')
    n = 0
    for in_range in (True, False):
        for settled in ((True, False) if in_range else (None,)):
            for full in ((True, False) if settled else (None,)):
                for pressing in (False, True):
                    for jp in (False, True):
                        for jr in (False, True):
                            it = Interp(facts)
                            st = State()
                            rc, N = rb.controller(it, st, pressing, jp, jr)
                            g = lambda nm: rc.get(nm).term
                            x = float_sym(st, 'x', 0, 1)
                            b = g('finger_press_high_boundary')
                            st.ctx.assume(cmp_term('Lt' if in_range else 'Ge', x.term, b))
                            r0, w0, G, Dd = g('num_samples_received'), g('num_samples_written'), g('num_to_ignore_up_front'), g('num_to_discard_at_end')
                            if settled is not None:
                                st.ctx.assume(cmp_term('Ge' if settled else 'Lt', r0 + 1, G))
                            if full is not None:
                                st.ctx.assume(cmp_term('Ge' if full else 'Lt', w0 + 1, N))
                            pre = copy.deepcopy(rc)
                            inst = 'poll|%s|settled=%s|full=%s|pressing=%d|jp=%d|jr=%d' % ('in-range' if in_range else 'out-of-range', settled, full, pressing, jp, jr)
                            try:
                                outs, cell = run_method(it, st, RCF + 'poll', rc, [x], genv={'BUFFER_CAPACITY': N})
                            except InterpError as e:
                                res.ob('R-RIBBON', inst, False, 'analysis failed: %s' % e, where)
                                continue
                            res.absorb(it)
                            for o in sem_iter(outs):
                                n += 1
                                if o.status != 'returned':
                                    res.ob('R-RIBBON', inst, False, 'path ends with %s: %s' % (o.status, o.panic_info), where, key='R-RIBBON:%s:%s' % (inst, o.status))
                                    continue
                                post = o.cells[cell]
                                poll_obligations(res, prop, inst, pre, post, o, x, in_range, settled, full, pressing, jp, jr, N, where, rb)
    # 32 pre-state partitions on the pinned tree; partitions excluded by the class invariant (pressing with a buffer that is
    # not full) may legitimately have no returning path (e.g. behind a debug assertion)
    res.floor('poll_outcomes', n, 24)
    return n


def poll_obligations(res, prop, inst, pre, post, o, x, in_range, settled, full, pressing, jp, jr, N, where, rb=None):
    ctx = o.ctx
    gp = lambda nm: pre.get(nm).term
    gq = lambda nm: post.get(nm) if post.has(nm) or rb is None else rb.show(post, nm)
    p1, jp1, jr1 = ((rb.flag(ctx, post, nm) if rb is not None else bool_of(ctx, post.get(nm))) for nm in ('finger_is_pressing', 'finger_just_pressed', 'finger_just_released'))
    r1, w1 = gq('num_samples_received'), gq('num_samples_written')
    buf0, buf1 = pre.get('buff'), post.get('buff')
    cv0, cv1 = pre.get('current_val'), post.get('current_val')
    G, Dd = gp('num_to_ignore_up_front'), gp('num_to_discard_at_end')
    K = 'R-RIBBON' if prop == 'C15' else 'R-AVG'

    def ob(name, ok, detail):
        res.ob(K, inst + '|' + name, ok, detail, where, key='%s:%s:%s' % (K, name, inst))
    const_ok = all(same(pre.get(nm), post.get(nm)) for nm in ('finger_press_high_boundary', 'error_const', 'num_to_ignore_up_front', 'num_to_discard_at_end'))
    if not in_range:
        if prop == 'C15':
            ob('release', p1 is False, 'finger_is_pressing after an out-of-range sample = %r' % (gq('finger_is_pressing'),))
            ob('counters restart', isinstance(r1, Num) and r1.term == ZERO and isinstance(w1, Num) and w1.term == ZERO,
               'counters after an out-of-range sample: received=%r written=%r (in-range samples separated by an out-of-range sample must never add up)' % (r1, w1))
            ob('released edge', jr1 == (jr or pressing), 'finger_just_released = %r, expected %s' % (gq('finger_just_released'), jr or pressing))
            ob('pressed edge untouched', jp1 == jp, 'finger_just_pressed = %r, expected %s' % (gq('finger_just_pressed'), jp))
        else:
            ob('value retained', same(cv0, cv1), 'current_val changed by an out-of-range sample: %r' % (cv1,))
            ob('counters restart', isinstance(r1, Num) and r1.term == ZERO and isinstance(w1, Num) and w1.term == ZERO,
               'counters after an out-of-range sample: received=%r written=%r (a later press would average samples of this one)' % (r1, w1))
        return
    # in range
    exp_r = gp('num_samples_received') + 1 if not settled else G
    if prop == 'C15':
        ob('settling counter', isinstance(r1, Num) and r1.term == exp_r, 'received = %r, expected %r' % (r1, exp_r))
        ob('released edge untouched', jr1 == jr, 'finger_just_released = %r, expected %s' % (gq('finger_just_released'), jr))
    if not settled:
        if prop == 'C15':
            ob('no progress while settling', isinstance(w1, Num) and w1.term == gp('num_samples_written') and p1 == pressing and jp1 == jp and same(buf0, buf1),
               'written=%r pressing=%r just_pressed=%r buffer=%r' % (w1, gq('finger_is_pressing'), gq('finger_just_pressed'), buf1))
        else:
            ob('value retained', same(cv0, cv1) and same(buf0, buf1), 'current_val/buffer changed while settling: %r' % (cv1,))
        return
    wrote = isinstance(buf1, ContV) and buf1.term == ('write', buf0.term, x.term)
    if prop == 'C16' or prop == 'C15':
        ob('sample stored once', wrote, 'buffer after an accepted sample = %r, expected write(buffer, x)' % (buf1,))
    exp_w = gp('num_samples_written') + 1 if not full else N
    if prop == 'C15':
        ob('fill counter', isinstance(w1, Num) and w1.term == exp_w, 'written = %r, expected %r' % (w1, exp_w))
    if not full:
        if prop == 'C15':
            ob('no press before the buffer is full', p1 == pressing and jp1 == jp, 'pressing=%r just_pressed=%r before the capture buffer is full' % (gq('finger_is_pressing'), gq('finger_just_pressed')))
        else:
            ob('value retained', same(cv0, cv1), 'current_val changed before the buffer is full: %r' % (cv1,))
        return
    if prop == 'C15':
        ob('press when full', p1 is True, 'finger_is_pressing = %r once the run fills the buffer' % (gq('finger_is_pressing'),))
        ob('pressed edge', jp1 == (jp or not pressing), 'finger_just_pressed = %r, expected %s' % (gq('finger_just_pressed'), jp or not pressing))
    else:
        # current_val' = E(a), a = mean of the N - discard oldest samples of the buffer *after* this write
        nt = N - Dd
        seq = ('take', ('oldest_ordered', ('write', buf0.term, x.term)), nt)
        a = t_app('sum', [seq]) * inv_poly(nt)
        e = gp('error_const')
        exp = a - (a - a * a) * e
        ok = isinstance(cv1, Num) and cv1.term == exp
        ob('average window', ok, 'current_val = %r; expected E(a) = a - (a - a^2)*error_const with a = sum(take(oldest_ordered(buffer after write), N - discard)) / (N - discard)' % (cv1,))
        lo, hi = ctx.rng(nt)
        ob('window non-empty', lo >= 1, 'N - discard in [%s,%s]' % (lo, hi))


def check_edges_and_value(res, facts, prop):
    rb = Rb(facts)
    if prop == 'C15':
        for meth, latch in (('finger_just_pressed', 'finger_just_pressed'), ('finger_just_released', 'finger_just_released')):
            for val, oth in [(v_, o_) for v_ in (False, True) for o_ in ((None,) if rb.has_fields else (False, True))]:
                it = Interp(facts)
                st = State()
                kw = {'jp': val, 'jr': oth} if latch == 'finger_just_pressed' else {'jr': val, 'jp': oth}
                rc, N = rb.controller(it, st, **kw)
                pre = copy.deepcopy(rc)
                outs, cell = run_method(it, st, RCF + meth, rc, [], genv={'BUFFER_CAPACITY': N})
                res.absorb(it)
                for o in sem_iter(outs):
                    post = o.cells[cell]
                    ch = set(spec_fields_changed(pre, post, RC_FIELDS))
                    other = 'finger_just_released' if latch == 'finger_just_pressed' else 'finger_just_pressed'
                    # held in another representation, the two flags share their carrier: reading one must leave the other as it was
                    ok = o.status == 'returned' and bool_of(o.ctx, o.ret) == val and rb.flag(o.ctx, post, latch) is False \
                        and {c_.split('.')[0] for c_ in ch} <= ({latch} | set(rb.latch_carriers or [])) and (rb.has_fields or rb.flag(o.ctx, post, other) is oth)
                    res.ob('R-RIBBON', '%s|latch=%s%s' % (meth, val, '' if oth is None else '|other=%s' % oth), ok,
                           'returned %r, latch after %r, changed %s' % (o.ret, rb.show(post, latch), sorted(ch)), where_of(facts, RCF + meth))
        for pv in (False, True):
            it = Interp(facts)
            st = State()
            rc, N = rb.controller(it, st, pressing=pv)
            pre = copy.deepcopy(rc)
            outs, cell = run_method(it, st, RCF + 'finger_is_pressing', rc, [], genv={'BUFFER_CAPACITY': N})
            for o in sem_iter(outs):
                res.ob('R-RIBBON', 'finger_is_pressing is a pure getter|%s' % pv, o.status == 'returned' and bool_of(o.ctx, o.ret) is pv and not spec_fields_changed(pre, o.cells[cell], RC_FIELDS), 'returns %r' % (o.ret,), where_of(facts, RCF + 'finger_is_pressing'))
        return
    # C16: value() = current_val / boundary, read-only
    it = Interp(facts)
    st = State()
    rc, N = rb.controller(it, st)
    # class invariant of the stored value: 0 <= current_val = w * boundary with w in [0,1) (0 <= E(a) <= a < boundary, below)
    b = rc.get('finger_press_high_boundary').term
    w = st.ctx.sym_range('w', 0, 1)
    rc.set('current_val', Num(w * b, 'f32'))
    pre = copy.deepcopy(rc)
    outs, cell = run_method(it, st, RCF + 'value', rc, [], genv={'BUFFER_CAPACITY': N})
    res.absorb(it)
    for o in sem_iter(outs):
        ok = o.status == 'returned' and isinstance(o.ret, Num) and o.ret.term == w and not spec_fields_changed(pre, o.cells[cell], RC_FIELDS)
        res.ob('R-AVG', 'value() = current_val / boundary (read-only)', ok, 'value() = %r for current_val = w*boundary' % (o.ret,), where_of(facts, RCF + 'value'))
    # E(a) = a - (a - a^2) e : 0 <= E(a) <= a, dE/da >= 0 for a in [0, b), e in [0,1]
    from ..terms import Ctx
    ctx = Ctx()
    a = ctx.sym_range('a', 0, 1)
    e = ctx.sym_range('e', 0, 1)
    E = a - (a - a * a) * e
    lo, hi = ctx.rng(E)
    res.ob('R-AVG', 'corrected mean stays in [0, mean]', lo >= 0 and ctx.rng(a - E)[0] >= 0, 'E(a) in [%s,%s], a - E(a) >= %s' % (lo, hi, ctx.rng(a - E)[0]))
    d = E.diff(('sym', 'a'))
    res.ob('R-AVG', 'corrected mean is monotone in the mean', ctx.rng(d)[0] >= 0, 'dE/da = %r in %s' % (d, ctx.rng(d)))
    # error_estimate is the documented polynomial (private helper: checked when it exists; the average-window obligation
    # of poll() checks the same polynomial on the value actually stored)
    if RCF + 'error_estimate' not in facts.fns:
        res.notes.append('private helper error_estimate not present (inlined/renamed): covered by the poll() term')
        return
    it = Interp(facts)
    st = State()
    rc, N = rb.controller(it, st)
    pos = float_sym(st, 'pos', 0, 1)
    outs, cell = run_method(it, st, RCF + 'error_estimate', rc, [pos], genv={'BUFFER_CAPACITY': N})
    res.absorb(it)
    for o in sem_iter(outs):
        exp = (pos.term - pos.term * pos.term) * rc.get('error_const').term
        res.ob('R-AVG', 'error_estimate(p) = (p - p^2) * error_const', o.status == 'returned' and isinstance(o.ret, Num) and o.ret.term == exp, 'error_estimate = %r' % (o.ret,), where_of(facts, RCF + 'error_estimate'))


def check_sizing(res, facts, prop):
    """sibling agreement: the constructor's ignore/discard counts vs the capacity helper"""
    rb = Rb(facts)
    FALL = facts.const_int('synth_utils::ribbon_controller::RIBBON_FALL_TIME_USEC')
    RISE = facts.const_int('synth_utils::ribbon_controller::RIBBON_RISE_TIME_USEC')
    CAP = facts.const_int('synth_utils::ribbon_controller::MIN_CAPTURE_TIME_USEC')
    # helper
    it = Interp(facts)
    st = State()
    sr = int_sym(st, 'sr', FS_MIN, FS_MAX, 'u32')
    outs = it.run(it.start(HELPER, [sr], state=st))
    res.absorb(it)
    helper_terms = []
    for o in sem_iter(outs):
        if o.status == 'returned' and isinstance(o.ret, Num):
            helper_terms.append(o.ret.term)
    exp_disc = t_idiv(sr.term.scale(RISE), Poly.const(10 ** 6), st.ctx)
    exp_main = t_idiv(sr.term.scale(CAP), Poly.const(10 ** 6), st.ctx)
    ok = len(helper_terms) == 1 and helper_terms[0] == exp_main + exp_disc + 1
    res.ob('R-AVG', 'sample_rate_to_capacity = main + discard + 1', ok, 'helper returns %r; expected idiv(sr*%d,1e6) + idiv(sr*%d,1e6) + 1' % (helper_terms, CAP, RISE), where_of(facts, HELPER))
    # constructor
    it = Interp(facts)
    st = State()
    N = st.ctx.sym_range('param:BUFFER_CAPACITY', 2, 2 ** 20, integer=True)
    srf = float_sym(st, 'srf', FS_MIN, FS_MAX)
    args = [srf, float_sym(st, 'softpot', 1, 10 ** 7), float_sym(st, 'dropper', 0, 10 ** 7), float_sym(st, 'pullup', 1, 10 ** 9)]
    outs = it.run(it.start(RCF + 'new', args, genv={'BUFFER_CAPACITY': N}, state=st))
    res.absorb(it)
    sru = t_f2i(srf.term, 0, 2 ** 32 - 1, st.ctx)
    for o in sem_iter(outs):
        if o.status != 'returned' or not isinstance(o.ret, StructV):
            res.ob('R-AVG', 'new()', False, 'new ends with %s: %s' % (o.status, o.panic_info), where_of(facts, RCF + 'new'))
            continue
        r = o.ret
        disc = r.get('num_to_discard_at_end').term
        ign = r.get('num_to_ignore_up_front').term
        e_disc = t_idiv(sru.scale(RISE), Poly.const(10 ** 6), o.ctx)
        e_ign = t_idiv(sru.scale(FALL), Poly.const(10 ** 6), o.ctx)
        if prop == 'C16':
            res.ob('R-AVG', 'new(): discard count agrees with the capacity helper', disc == e_disc,
                   'num_to_discard_at_end = %r; the helper sizes the buffer with idiv(sr*%d, 1e6)' % (disc, RISE), where_of(facts, RCF + 'new'), key='R-AVG:sibling-discard')
            b = r.get('finger_press_high_boundary').term
            d_, s_ = Poly.sym('dropper'), Poly.sym('softpot')
            res.ob('R-AVG', 'new(): boundary = 1 - dropper/(dropper+softpot)', b == ONE - d_ * inv_poly(d_ + s_), 'finger_press_high_boundary = %r' % (b,), where_of(facts, RCF + 'new'))
            ec = r.get('error_const').term
            res.ob('R-AVG', 'new(): error_const = (softpot+dropper)/pullup', ec == (s_ + d_) * inv_poly(Poly.sym('pullup')), 'error_const = %r' % (ec,), where_of(facts, RCF + 'new'))
        else:
            res.ob('R-RIBBON', 'new(): settling count = sr * fall time', ign == e_ign, 'num_to_ignore_up_front = %r' % (ign,), where_of(facts, RCF + 'new'), key='R-RIBBON:new-ignore')
        ok0 = all(isinstance(r.get(nm), Num) and r.get(nm).term == ZERO for nm in COUNTERS) and all(rb.flag(o.ctx, r, nm) is False for nm in ('finger_is_pressing', 'finger_just_pressed', 'finger_just_released'))
        res.ob('R-RIBBON' if prop == 'C15' else 'R-AVG', 'new(): starts released with zero counters', ok0, 'initial state %r' % (r,), where_of(facts, RCF + 'new'), key='R-RIBBON:new-state')
