"""C17 (R-PANIC): no panic / overflow / hang for in-range arguments.

Every public entry point of the six modules is analysed from the most general abstract pre-state satisfying its
class invariant, with the arguments ranging over the documented sets.  Every `Assert` terminator (overflow, bounds,
division by zero), every explicit panic (Result::unwrap on Err, debug_assert! in the dependency conversions, slice
indexing) met on any path becomes an obligation that must be discharged; the class invariants used as pre-states are
re-established on every post-state; every loop must be driven by a bounded iterator; every reachable Assert site of the
crate must have been visited (coverage floor).
"""
import copy
from fractions import Fraction as Fr

from ..terms import (Poly, B, INF, TRUE, FALSE, ZERO, ONE, NAN, bconst, cmp_term, as_poly, inv_poly)
from ..interp import (Interp, State, Num, BoolV, StructV, EnumV, TupleV, RefV, ContV, Opaque, UnitV, InterpError)
from ..facts import term_succs
from .common import *
from . import dds as D
from . import midi as M
from . import quant as QZ
from . import glide as G
from . import ribbon as R

FS_MIN, FS_MAX = 100, 192000


class Collector:
    def __init__(self, res, facts):
        self.res = res
        self.facts = facts
        self.visited = set()
        self.entries = 0
        self.paths = 0
        self.rankings = {}      # (fn, loop head) -> rankings found by the interpreter at every analysis of that loop

    def run(self, name, it, st, path, self_val, args, genv=None, post_inv=None):
        """analyse one entry partition; post_inv(o, post_self) -> list of (ok, description)"""
        self.entries += 1
        try:
            if self_val is None:
                st2 = it.start(path, args, genv=genv, state=st)
                outs = it.run(st2)
                cell = None
            else:
                outs, cell = run_method(it, st, path, self_val, args, genv=genv)
        except InterpError as e:
            self.res.ob('R-PANIC', name, False, 'analysis failed: %s' % e, where_of(self.facts, path), key='R-PANIC:analysis:' + name)
            return []
        self.res.absorb(it)
        for k, v in it.loop_rankings.items():
            self.rankings.setdefault(k, []).extend(v)
        it.loop_rankings = {}
        for o in sem_iter(outs, include_loopback=True):
            self.paths += 1
            for ob in o.obligations:
                self.visited.add(ob.key)
                if ob.status != 'discharged':
                    self.res.ob('R-PANIC', '%s :: %s' % (name, ob.key), False,
                                '%s %s: %s' % ('possible panic' if ob.status == 'unknown' else 'PANIC', ob.kind, ob.detail), ob.span, key='R-PANIC:%s' % ob.key)
            if o.status == 'panic' and not any(ob.status == 'violated' for ob in o.obligations):
                self.res.ob('R-PANIC', name, False, 'path panics: %s' % o.panic_info, where_of(self.facts, path), key='R-PANIC:panic:' + name)
            elif o.status == 'stuck':
                self.res.ob('R-PANIC', name, False, 'analysis stuck (fail closed): %s' % o.panic_info, where_of(self.facts, path), key='R-PANIC:stuck:' + name)
            elif o.status == 'returned':
                self.res.ob('R-PANIC', name + '|returns', True, 'all obligations on this path discharged', nontrivial=False, key='R-PANIC:ok:%s:%d' % (name, self.paths))
                if post_inv is not None:
                    post = o.cells[cell] if cell is not None else o.ret
                    for ok, desc in post_inv(o, post):
                        self.res.ob('R-INV', name, ok, desc, where_of(self.facts, path), key='R-INV:%s:%s' % (name, desc.split(':')[0]))
        return outs


def in_range(ctx, term, lo, hi):
    l, h = ctx.rng(term)
    return l >= lo and h <= hi, '[%s,%s]' % (l, h)


# ---------------------------------------------------------------------------------------

def need_driven(col, facts, name, entries):
    """Class invariants are an assume/guarantee device, not part of C17: an invariant is assumed in the pre-states (and then
    has to be re-established on every post-state, R-INV) only when some panic obligation cannot be discharged without it.
    The group is first analysed from pre-states WITHOUT the optional invariants; if every obligation is discharged that
    way, nothing is assumed and nothing needs re-establishing (a change that breaks `gate <=> list non-empty` without making
    anything panic is C04's business, not C17's).  Otherwise the group is analysed again with the invariants assumed and
    R-INV obligations on every post-state."""
    from ..core import Result
    used = 'none'
    tmp = Result(col.res.prop)
    c2 = Collector(tmp, facts)
    entries(c2, facts, strong=False)
    if tmp.violations():
        used = 'class invariant assumed and re-established (needed by: %s)' % '; '.join(sorted({o.instance[:80] for o in tmp.violations()})[:3])
        tmp = Result(col.res.prop)
        c2 = Collector(tmp, facts)
        entries(c2, facts, strong=True)
    res = col.res
    res.obs.extend(tmp.obs)
    res.functions |= tmp.functions
    res.models |= tmp.models
    res.partitions += tmp.partitions
    res.extra['abstract_states_explored'] = res.extra.get('abstract_states_explored', 0) + tmp.extra.get('abstract_states_explored', 0)
    for u in tmp.unmodelled:
        if u not in res.unmodelled:
            res.unmodelled.append(u)
    col.visited |= c2.visited
    for k, v in c2.rankings.items():
        col.rankings.setdefault(k, []).extend(v)
    col.entries += c2.entries
    col.paths += c2.paths
    res.extra.setdefault('optional_class_invariants', {})[name] = used


def check_panics(res, facts):
    col = Collector(res, facts)
    need_driven(col, facts, 'adsr', adsr_entries)
    lfo_entries(col, facts)
    glide_entries(col, facts)
    need_driven(col, facts, 'quantizer', quant_entries)
    need_driven(col, facts, 'ribbon', ribbon_entries)
    need_driven(col, facts, 'midi', midi_entries)
    conversions(col, facts)
    coverage(col, facts)
    loops(res, facts, col.rankings)
    res.extra['entry_partitions'] = col.entries
    res.extra['paths'] = col.paths
    res.extra['assert_sites_visited'] = len([k for k in col.visited if '@synth_utils::' in k])
    res.floor('entry_partitions', col.entries, 150)


def check_midi_panics(res, facts):
    """the 'never panics' clause of C06: R-PANIC over the MIDI entry partitions only (parser states x byte classes x held-list
    length classes, pre-states restricted to the class invariant, which is re-established on every post-state)"""
    col = Collector(res, facts)
    with panic_policy('judge'):
        need_driven(col, facts, 'midi', midi_entries)
    res.floor('midi_entry_partitions', col.entries, 100)


def adsr_entries(col, facts, strong=False):
    dds = D.Dds(facts)
    dds.finite_inputs = True    # "envelope times and sustain levels of any finite value"
    dds.need_levels = False
    total, index = D.pa_instantiation(facts, D.ADSR)
    mask = (1 << total) - 1
    inc_max = 2 ** 32 - 1 - mask

    def inv(o, post):
        pa = post.get('phase_accumulator')
        ok1, r1 = in_range(o.ctx, pa.get('accumulator').term, 0, mask)
        out = [(ok1, 'accumulator <= mask: %s' % r1)]
        if strong:
            # optional (assumed only when needed): the stored increment leaves room for the unchecked addition.  The pinned
            # code reprograms the increment on every tick and needs no such invariant; code that keeps it across ticks does.
            inc = pa.get('increment').term
            out.append((le_const(o.ctx, inc, inc_max) and o.ctx.rng(inc)[0] >= 0, 'stored increment <= 2^32-1-mask: %r' % (inc,)))
        return out
    kw = dict(inc_range=(0, inc_max)) if strong else {}
    it = dds.interp()
    st = State()
    col.run('Adsr::new', it, st, D.ADSR + '::new', None, [float_sym(st, 'fs', FS_MIN, FS_MAX)], post_inv=(lambda o, post: inv(o, post)) if strong else None)
    for state in D.STATES:
        for meth in ('tick', 'gate_on', 'gate_off', 'value'):
            it = dds.interp()
            st = State()
            a = dds.make_adsr(it, st, state, total, index, rolled=None, **kw)
            col.run('Adsr::%s|%s' % (meth, state), it, st, D.ADSR + '::' + meth, a, [], post_inv=inv)
    for vname in ('Attack', 'Decay', 'Sustain', 'Release'):
        it = dds.interp()
        st = State()
        a = dds.make_adsr(it, st, 'Decay', total, index, rolled=None, **kw)
        inner = it.sym_value(st, adt_ty(D.SL if vname == 'Sustain' else D.TP), 'arg')
        col.run('Adsr::set_input|%s' % vname, it, st, D.ADSR + '::set_input', a, [make_enum(facts, 'synth_utils::adsr::Input', vname, [inner])], post_inv=inv)


def lfo_entries(col, facts):
    dds = D.Dds(facts)
    total, index = D.pa_instantiation(facts, D.LFO)
    mask = (1 << total) - 1

    def inv(o, post):
        pa = post.get('phase_accumulator')
        ok1, r1 = in_range(o.ctx, pa.get('accumulator').term, 0, mask)
        ok2, r2 = in_range(o.ctx, pa.get('increment').term, 0, 1 << total)
        return [(ok1, 'accumulator <= mask: %s' % r1), (ok2, 'increment <= 2^T (f <= fs): %s' % r2)]
    it = dds.interp()
    st = State()
    col.run('Lfo::new', it, st, D.LFO + '::new', None, [float_sym(st, 'fs', FS_MIN, FS_MAX)])
    mk = lambda it, st: dds.make_lfo(it, st, total, index, inc_range=(0, 1 << total), rolled=None)
    for meth in ('tick', 'reset'):
        it = dds.interp()
        st = State()
        col.run('Lfo::' + meth, it, st, D.LFO + '::' + meth, mk(it, st), [], post_inv=inv)
    it = dds.interp()
    st = State()
    l = mk(it, st)
    f = float_sym(st, 'f', 0, FS_MAX)
    st.ctx.assume(cmp_term('Le', f.term, l.get('phase_accumulator').get('sample_rate_hz').term))
    col.run('Lfo::set_frequency', it, st, D.LFO + '::set_frequency', l, [f], post_inv=lfo_inc_inv(total, inv))
    for part, rng in (('p>=0', (0, INF)), ('p<0', (-INF, 0))):
        it = dds.interp()
        st = State()
        col.run('Lfo::set_phase|' + part, it, st, D.LFO + '::set_phase', mk(it, st), [float_sym(st, 'p', *rng)], post_inv=inv)
    for shape in ('Sine', 'Triangle', 'UpSaw', 'DownSaw', 'Square'):
        it = dds.interp()
        st = State()
        col.run('Lfo::get|' + shape, it, st, D.LFO + '::get', mk(it, st), [make_enum(facts, D.WAVE, shape)])


def le_const(ctx, t, K, depth=0):
    """t <= K on every valuation the context allows?  Decided semantically: interval / order facts first, then through the
    outermost min / max / saturating cast, and for a real quotient by clearing positive denominators (x*d^-1 <= K  <=>
    x <= K*d for d > 0).  True = proved; False = not proved."""
    t = as_poly(t)
    if ctx.decide(cmp_term('Le', t, K)) is True:
        return True
    l, h = ctx.rng(t)
    if h <= K:
        return True
    if depth > 6:
        return False
    a = t.as_single_atom()
    if a is not None:
        if a[0] in ('min', 'fmin'):
            return any(le_const(ctx, x, K, depth + 1) for x in a[1:] if isinstance(x, Poly))
        if a[0] in ('max', 'fmax'):
            return all(le_const(ctx, x, K, depth + 1) for x in a[1:] if isinstance(x, Poly))
        if a[0] == 'f2i':
            # trunc(x) clamped into [tlo, thi]: <= K when x <= K (K >= tlo)
            return le_const(ctx, a[1], K, depth + 1)
        if a[0] == 'idiv':
            # floor(x / c) <= K  <=>  x < (K+1)*c  for a positive constant divisor
            cv = a[2].const_value() if isinstance(a[2], Poly) else None
            if cv is not None and cv > 0 and ctx.rng(a[1])[0] >= 0:
                return le_const(ctx, a[1], (K + 1) * cv - 1, depth + 1) if ctx._int_valued(a[1]) else le_const(ctx, a[1], K * cv, depth + 1)
        if a[0] == 'mod':
            cv = a[2].const_value() if isinstance(a[2], Poly) else None
            if cv is not None and cv > 0 and cv - 1 <= K and ctx.rng(a[1])[0] >= 0:
                return True
    # clear positive denominators
    dens = set()
    for m in t.t:
        for b_, pw in m:
            if pw < 0:
                dens.add(b_)
    for d in dens:
        dl, dh = ctx.atom_range(d)
        if dl > 0:
            dp = Poly.atom(d)
            if ctx.decide(cmp_term('Le', t * dp, Poly.const(K) * dp)) is True:
                return True
    return False


def lfo_inc_inv(total, inv):
    def f(o, post):
        # e.g. increment = trunc(2^T * f/fs) with f <= fs  =>  <= 2^T : relational, decided on the term
        pa = post.get('phase_accumulator')
        inc = pa.get('increment').term
        ok = le_const(o.ctx, inc, 1 << total) and o.ctx.rng(inc)[0] >= 0
        return [(ok, 'increment <= 2^T (f <= fs): %r' % (inc,))]
    return f


def glide_entries(col, facts):
    gl = G.Gl(facts)
    it = Interp(facts)
    st = State()
    S = float_sym(st, 'S', FS_MIN, FS_MAX)
    outs = col.run('GlideProcessor::new', it, st, G.GP + '::new', None, [S])
    tmpl, ctx0 = None, None
    for o in sem_iter(outs):
        if o.status == 'returned' and isinstance(o.ret, StructV):
            tmpl, ctx0 = o.ret, o.ctx
    if tmpl is None:
        return
    umax, min_fc = G.limits_from_new(tmpl, ctx0, S)
    if umax is None:
        col.res.ob('R-PANIC', 'GlideProcessor::set_time', False, 'cannot read the fastest setting from the constructor design', where_of(facts, G.GP + '::new'), key='R-PANIC:glide-limits')
        return
    for pi in range(G.N_PARTS):
        for ck in gl.cached_kinds(tmpl):
            it = Interp(facts)
            st = State()
            st.ctx = ctx0.copy()
            gp = gl.processor(it, st, tmpl, cached=ck)
            pname, tterm, fs_ = G.time_partitions(st, S.term, umax, min_fc)[pi]
            for f in fs_:
                st.ctx.assume(f)
            col.run('GlideProcessor::set_time|' + pname + ('|no time in effect' if ck == 'none' else ''), it, st, G.GP + '::set_time', gp, [Num(tterm, 'f32')])
    for ck in gl.cached_kinds(tmpl):
        it = Interp(facts)
        st = State()
        st.ctx = ctx0.copy()
        col.run('GlideProcessor::process' + ('|no time in effect' if ck == 'none' else ''), it, st, G.GP + '::process', gl.processor(it, st, tmpl, cached=ck), [float_sym(st, 'x')])


def quant_entries(col, facts, strong=True):
    qz = QZ.Qz(facts)

    def inv_(o, post):
        ok, r = in_range(o.ctx, post.get('allowed').term, 1, 4095)
        return [(ok, 'allowed in [1,4095]: %s' % r)]
    inv = inv_ if strong else None

    def mkq(it, st):
        q = it.sym_value(st, adt_ty(QZ.Q), 'self')
        if strong:
            st.ctx.ranges[('sym', 'self.allowed')] = (Fr(1), Fr(4095))
        return q
    it = qz.interp()
    col.run('Quantizer::new', it, State(), QZ.Q + '::new', None, [])
    it = qz.interp()
    col.run('Conversion::new', it, State(), QZ.CONV + '::new', None, [])
    for vname, vr in (('finite', (-INF, INF)), ('nan', None)):
        it = qz.interp()
        st = State()
        q = mkq(it, st)
        v = Num(NAN, 'f32') if vr is None else float_sym(st, 'v', *vr)
        col.run('Quantizer::convert|' + vname, it, st, QZ.Q + '::convert', q, [v], post_inv=inv)
    for meth in ('allow', 'forbid'):
        for part, lr in (('len=0', (0, 0)), ('len>=1', (1, 2 ** 20))):
            it = qz.interp()
            st = State()
            q = mkq(it, st)
            notes = it.sym_value(st, {'k': 'ref', 'mut': False, 'ty': {'k': 'slice', 'ty': adt_ty(QZ.NOTE)}}, 'notes')
            if lr[0] == lr[1]:
                notes.len = Poly.const(lr[0])
            else:
                st.ctx.ranges[notes.len.as_single_atom()] = (Fr(lr[0]), Fr(lr[1]))
            col.run('Quantizer::%s|%s' % (meth, part), it, st, QZ.Q + '::' + meth, q, [notes], post_inv=inv)
    it = qz.interp()
    st = State()
    col.run('Quantizer::is_allowed', it, st, QZ.Q + '::is_allowed', mkq(it, st), [it.sym_value(st, adt_ty(QZ.NOTE), 'note')])
    for path in (QZ.NOTE + '::new', '<synth_utils::quantizer::Note as core::convert::From<u8>>::from'):
        it = qz.interp()
        st = State()
        col.run(path.split('::')[-2] + '::' + path.split('::')[-1], it, st, path, None, [int_sym(st, 'n', 0, 255)])


def ribbon_entries(col, facts, strong=True):
    rb = R.Rb(facts)

    def inv(o, post):
        g = lambda n: post.get(n).term
        N = Poly.sym('param:BUFFER_CAPACITY')
        a = o.ctx.decide(cmp_term('Le', g('num_samples_received'), g('num_to_ignore_up_front'))) is True
        b = o.ctx.decide(cmp_term('Le', g('num_samples_written'), N)) is True
        out = [(a, 'received <= ignore: %r' % (g('num_samples_received'),)), (b, 'written <= capacity: %r' % (g('num_samples_written'),))]
        if not strong:
            return out
        # a press is only reported while the run has filled the buffer; the buffer holds at least the samples of the run
        pr = R.bool_of(o.ctx, post.get('finger_is_pressing'))
        c = pr is False or o.ctx.decide(cmp_term('Eq', g('num_samples_written'), N)) is True
        out.append((c, 'pressing => written == capacity: pressing=%s written=%r' % (pr, g('num_samples_written'))))
        buf = post.get('buff')
        fill = buf.extra.get('fill') if isinstance(buf, ContV) and buf.extra else None
        if fill is not None:
            d = o.ctx.decide(cmp_term('Le', g('num_samples_written'), fill)) is True
            out.append((d, 'written <= samples held by the buffer: written=%r fill=%r' % (g('num_samples_written'), fill)))
        return out
    for in_rng in (True, False):
      for pressing in (True, False):
        for settled in ((True, False) if in_rng else (None,)):
            for full in ((True, False) if settled else (None,)):
                it = Interp(facts)
                st = State()
                rc, N = rb.controller(it, st, pressing=pressing)
                g = lambda nm: rc.get(nm).term
                # class invariant (re-established by `inv` on every post-state)
                if pressing and strong:
                    st.ctx.assume(cmp_term('Eq', g('num_samples_written'), N))
                buf0 = rc.get('buff')
                if strong and isinstance(buf0, ContV) and buf0.extra and buf0.extra.get('fill') is not None:
                    st.ctx.assume(cmp_term('Le', g('num_samples_written'), buf0.extra['fill']))
                x = float_sym(st, 'x', 0, 1)
                st.ctx.assume(cmp_term('Lt' if in_rng else 'Ge', x.term, g('finger_press_high_boundary')))
                if settled is not None:
                    st.ctx.assume(cmp_term('Ge' if settled else 'Lt', g('num_samples_received') + 1, g('num_to_ignore_up_front')))
                if full is not None:
                    st.ctx.assume(cmp_term('Ge' if full else 'Lt', g('num_samples_written') + 1, N))
                if strong and pressing and full is False:
                    continue    # excluded by the invariant: a reported press has a full buffer
                col.run('RibbonController::poll|in=%s|pressing=%s|settled=%s|full=%s' % (in_rng, pressing, settled, full), it, st, R.RCF + 'poll', rc, [x], genv={'BUFFER_CAPACITY': N}, post_inv=inv)
    for meth in ('value', 'finger_is_pressing', 'finger_just_pressed', 'finger_just_released'):
        it = Interp(facts)
        st = State()
        rc, N = rb.controller(it, st)
        col.run('RibbonController::' + meth, it, st, R.RCF + meth, rc, [], genv={'BUFFER_CAPACITY': N})
    it = Interp(facts)
    st = State()
    N = st.ctx.sym_range('param:BUFFER_CAPACITY', 2, 2 ** 20, integer=True)
    args = [float_sym(st, 'srf', FS_MIN, FS_MAX), float_sym(st, 'softpot', 1, 10 ** 7), float_sym(st, 'dropper', 0, 10 ** 7), float_sym(st, 'pullup', 1, 10 ** 9)]
    col.run('RibbonController::new', it, st, R.RCF + 'new', None, args, genv={'BUFFER_CAPACITY': N})
    it = Interp(facts)
    st = State()
    col.run('sample_rate_to_capacity', it, st, R.HELPER, None, [int_sym(st, 'sr', FS_MIN, FS_MAX, 'u32')])


def midi_entries(col, facts, strong=True):
    rxf = M.Rx(facts)
    snames = variant_names(facts, M.PST)
    cap = facts.const_int('synth_utils::mono_midi_receiver::HELD_DOWN_NOTE_BUFFER_LEN')

    def inv(o, post):
        lst = post.get('held_down_notes')
        ok = isinstance(lst, ContV) and lst.len is not None
        r = ''
        if ok:
            ok, r = in_range(o.ctx, lst.len, 0, cap)
        ok2, r2 = in_range(o.ctx, post.get('channel').term, 0, 15)
        out = [(ok, 'held list length <= %d: %s' % (cap, r)), (ok2, 'channel <= 15: %s' % r2)]
        if not strong:
            return out
        # the rest of the class invariant the pre-states assume (class_inv): gate <=> non-empty, edge latches consistent
        if ok:
            llo, lhi = o.ctx.rng(lst.len)
            g = M.bool_of(o.ctx, post.get('gate')) if hasattr(M, 'bool_of') else None
            rg = rxf.latch(o.ctx, post, 'rising_gate')
            fg = rxf.latch(o.ctx, post, 'falling_gate')
            out.append(((g is True and llo >= 1) or (g is False and lhi == 0), 'gate <=> held list non-empty: gate=%s len in [%s,%s]' % (g, llo, lhi)))
            out.append((rg is False or g is True, 'rising edge pending => gate high: rising=%s gate=%s' % (rg, g)))
            out.append((fg is False or g is False, 'falling edge pending => gate low: falling=%s gate=%s' % (fg, g)))
            hull = o.ctx.elem_hull(lst.term)
            out.append((hull is not None and hull[0] >= 0 and hull[1] <= 127, 'held note numbers <= 127: element hull %s' % (hull,)))
        nn = post.get('note_num')
        if isinstance(nn, Num):
            ok3, r3 = in_range(o.ctx, nn.term, 0, 127)
            out.append((ok3, 'selected note number <= 127: %s' % r3))
        return out
    it = rxf.interp()
    st = State()
    col.run('MonoMidiReceiver::new', it, st, M.RX + '::new', None, [int_sym(st, 'c', 0, 255)])
    len_classes = [(0, 0), (1, 1), (2, cap - 1), (cap, cap)]
    for sname in snames:
        for cname, lo, hi in (('data', 0, 0x7F), ('channel-status', 0x80, 0xEF), ('system', 0xF0, 0xFF)):
            # only data bytes can complete a message and reach the handlers: partition the held list there
            # every byte class is analysed per length class so that the pre-state can carry the class invariant
            for lr in len_classes:
                it = rxf.interp()
                st = State()
                rx = rxf.receiver(it, st, list_len=lr, class_inv=strong)
                vi = variant_index(facts, M.PST, sname)
                sv = EnumV(M.PST, vi, {}, vnames=snames, name='state')
                it.enum_payload(st, sv, vi)
                it.apply_invariants(st, TupleV(list(sv.payload[vi])))
                for x in sv.payload[vi]:
                    if isinstance(x, Num):
                        st.ctx.ranges[x.term.as_single_atom()] = (Fr(0), Fr(127))
                parser = rx.get('parser')
                parser.fields[0] = sv
                col.run('MonoMidiReceiver::parse|%s|%s|len%s' % (sname, cname, lr), it, st, M.RX + '::parse', rx, [int_sym(st, 'byte', lo, hi)], post_inv=inv)
    for g in ['note_num', 'pitch_bend', 'velocity', 'mod_wheel', 'volume', 'vcf_cutoff', 'vcf_resonance', 'portamento_time', 'portamento_enabled',
              'sustain_enabled', 'gate', 'rising_gate', 'falling_gate']:
        if strong and g in ('gate', 'rising_gate', 'falling_gate', 'note_num'):
            # observers of the gate may assert the class invariant (`debug_assert!(!rising || gate)`): they start from it and,
            # where they clear a latch, have to re-establish it
            for lr in len_classes:
                it = rxf.interp()
                st = State()
                col.run('MonoMidiReceiver::%s|len%s' % (g, lr), it, st, M.RX + '::' + g, rxf.receiver(it, st, list_len=lr, class_inv=True), [], post_inv=inv)
            continue
        it = rxf.interp()
        st = State()
        col.run('MonoMidiReceiver::' + g, it, st, M.RX + '::' + g, rxf.receiver(it, st), [])
    for meth, enum, variants in (('set_note_priority', 'synth_utils::mono_midi_receiver::NotePriority', ['Last', 'High', 'Low']),
                                 ('set_retrigger_mode', 'synth_utils::mono_midi_receiver::RetriggerMode', ['AllowRetrigger', 'NoRetrigger'])):
        for v in variants:
            it = rxf.interp()
            st = State()
            col.run('MonoMidiReceiver::%s|%s' % (meth, v), it, st, M.RX + '::' + meth, rxf.receiver(it, st), [make_enum(facts, enum, v)])


def conversions(col, facts):
    from ..terms import NAN as NANP
    for path in ('<synth_utils::adsr::TimePeriod as core::convert::From<f32>>::from', '<synth_utils::adsr::SustainLevel as core::convert::From<f32>>::from'):
        for part in ('real', 'nan'):
            it = Interp(facts)
            st = State()
            x = Num(NANP, 'f32') if part == 'nan' else float_sym(st, 'x', -INF, INF)
            col.run('%s|%s' % (path.split(' as ')[0].strip('<').split('::')[-1] + '::from', part), it, st, path, None, [x])
    dds = D.Dds(facts)
    for path, ty in (('synth_utils::adsr::<impl core::convert::From<synth_utils::adsr::TimePeriod> for f32>::from', D.TP),
                     ('synth_utils::adsr::<impl core::convert::From<synth_utils::adsr::SustainLevel> for f32>::from', D.SL),
                     ('synth_utils::quantizer::<impl core::convert::From<synth_utils::quantizer::Note> for u8>::from', QZ.NOTE)):
        if path in facts.fns:
            it = dds.interp()
            QZ.note_invariant(it)
            st = State()
            col.run(path.split('::')[-1] + ' for ' + ty.split('::')[-1], it, st, path, None, [it.sym_value(st, adt_ty(ty), 'v')])


# ---------------------------------------------------------------------------------------

def reachable_fns(facts):
    """functions of synth_utils reachable from its externally reachable API through resolved calls"""
    roots = [p for p, f in facts.fns.items() if f['crate'] == 'synth_utils' and f.get('reachable') and not f.get('derived')]
    seen = set()
    stack = list(roots)
    while stack:
        p = stack.pop()
        if p in seen:
            continue
        seen.add(p)
        f = facts.fns.get(p)
        if f is None:
            continue
        for b in f['blocks']:
            t = b['term']
            if t['k'] == 'call' and 'def' in t['callee']:
                cal = t['callee']
                for key in ('via_from', 'resolved'):
                    c = cal.get(key)
                    if c and c['path'] in facts.fns:
                        stack.append(c['path'])
            for s in b['stmts']:
                if s['k'] == 'assign' and s['rv']['k'] == 'aggregate' and s['rv'].get('agg') == 'closure':
                    stack.append(s['rv']['path'])
    return seen


def assert_sites(facts, fn_path):
    f = facts.fns[fn_path]
    out = []
    n = 0
    for i, b in enumerate(f['blocks']):
        t = b['term']
        if t['k'] in ('assert', 'call'):
            if t['k'] == 'assert' and not b.get('cleanup'):
                out.append(('%s@%s#%d' % (t['kind'], fn_path, n), t['span']))
            n += 1
    return out


def coverage(col, facts):
    reach = reachable_fns(facts)
    total = 0
    missing = []
    for p in sorted(reach):
        f = facts.fns.get(p)
        if f is None or f['crate'] != 'synth_utils' or f.get('derived'):
            continue
        cfg = facts.cfg(p)
        for key, span in assert_sites(facts, p):
            # ignore sites in blocks unreachable in the CFG
            total += 1
            if key not in col.visited:
                missing.append((key, span))
    for key, span in missing:
        col.res.ob('R-PANIC-COVER', key, False, 'reachable Assert site never visited by the analysis (fail closed)', span, key='R-PANIC-COVER:' + key)
    col.res.ob('R-PANIC-COVER', 'all reachable Assert sites visited', not missing, '%d of %d sites visited' % (total - len(missing), total), nontrivial=False)
    col.res.floor('assert_sites', total, 30)   # 52 on the pinned tree; hoisting checked arithmetic into constants legitimately removes sites (refactorings5/adsr_4: 44)
    col.res.extra['assert_sites_total'] = total


BOUNDED_NEXT = ('core::iter::range::<impl core::iter::traits::iterator::Iterator for core::ops::range::Range<A>>::next',
                'core::iter::range::<impl core::iter::traits::iterator::Iterator for core::ops::range::RangeInclusive<A>>::next',
                '<heapless::vec::IntoIter<T, N> as core::iter::traits::iterator::Iterator>::next',
                "<core::slice::iter::Iter<'a, T> as core::iter::traits::iterator::Iterator>::next")


BOUNDED_SOURCES = ('core::ops::range::Range', 'core::ops::range::RangeInclusive', 'core::slice::iter::Iter', 'core::slice::iter::IterMut',
                   'heapless::vec::IntoIter', 'core::array::iter::IntoIter', 'core::option::IntoIter', 'core::option::Iter',
                   'core::slice::iter::Chunks', 'core::slice::iter::Windows', 'heapless::histbuf::OldestOrdered', 'core::str::iter::Chars', 'core::str::iter::Bytes')
BOUNDED_ADAPTORS = ('core::iter::adapters::map::Map', 'core::iter::adapters::filter::Filter', 'core::iter::adapters::filter_map::FilterMap',
                    'core::iter::adapters::enumerate::Enumerate', 'core::iter::adapters::rev::Rev', 'core::iter::adapters::take::Take',
                    'core::iter::adapters::skip::Skip', 'core::iter::adapters::step_by::StepBy', 'core::iter::adapters::copied::Copied',
                    'core::iter::adapters::cloned::Cloned', 'core::iter::adapters::peekable::Peekable', 'core::iter::adapters::take_while::TakeWhile',
                    'core::iter::adapters::skip_while::SkipWhile', 'core::iter::adapters::inspect::Inspect', 'core::iter::adapters::fuse::Fuse',
                    'core::iter::adapters::map_while::MapWhile')
BOUNDED_BOTH = ('core::iter::adapters::chain::Chain',)
BOUNDED_EITHER = ('core::iter::adapters::zip::Zip',)


def bounded_iter_ty(ty, depth=0):
    """the iterator type yields finitely many items whatever its closures do: a bounded source (integer range, slice, fixed
    container) under adaptors that never yield more items than their source"""
    if not isinstance(ty, dict) or depth > 8:
        return False
    if ty.get('k') == 'ref':
        return bounded_iter_ty(ty.get('ty'), depth + 1)
    if ty.get('k') != 'adt':
        return False
    path = ty.get('path', '')
    targs = [a.get('ty') for a in ty.get('args', []) if isinstance(a, dict) and 'ty' in a]
    if path in BOUNDED_SOURCES:
        return True
    if path in BOUNDED_ADAPTORS:
        return bool(targs) and bounded_iter_ty(targs[0], depth + 1)
    if path == 'core::iter::adapters::flatten::FlatMap':
        # FlatMap<I, U, F>: finitely many outer items, each mapped to a finite sequence U
        return len(targs) >= 2 and bounded_iter_ty(targs[0], depth + 1) and bounded_iterable_ty(targs[1], depth + 1)
    if path == 'core::iter::adapters::flatten::Flatten':
        return bool(targs) and bounded_iter_ty(targs[0], depth + 1) and bounded_iterable_ty(iter_item_ty(targs[0]), depth + 1)
    if path in BOUNDED_BOTH:
        return len(targs) >= 2 and bounded_iter_ty(targs[0], depth + 1) and bounded_iter_ty(targs[1], depth + 1)
    if path in BOUNDED_EITHER:
        return len(targs) >= 2 and (bounded_iter_ty(targs[0], depth + 1) or bounded_iter_ty(targs[1], depth + 1))
    return False


def bounded_iterable_ty(ty, depth=0):
    """IntoIterator types with finitely many items"""
    if not isinstance(ty, dict):
        return False
    if ty.get('k') in ('array', 'slice'):
        return True
    if ty.get('k') == 'ref':
        return bounded_iterable_ty(ty.get('ty'), depth + 1)
    if ty.get('k') == 'adt' and ty.get('path') in ('core::option::Option', 'core::result::Result', 'heapless::vec::Vec', 'heapless::histbuf::HistoryBuffer'):
        return True
    return bounded_iter_ty(ty, depth + 1)


def iter_item_ty(ty):
    """item type of a bounded source / item-preserving adaptor chain (None when a closure decides it)"""
    if not isinstance(ty, dict) or ty.get('k') != 'adt':
        return None
    path = ty.get('path', '')
    targs = [a.get('ty') for a in ty.get('args', []) if isinstance(a, dict) and 'ty' in a]
    if path in BOUNDED_SOURCES:
        return targs[0] if targs else None
    if path in BOUNDED_ADAPTORS and not path.endswith(('::Map', '::FilterMap', '::MapWhile', '::Enumerate')):
        return iter_item_ty(targs[0]) if targs else None
    return None


def loops(res, facts, rankings=None):
    """every loop of a reachable function is driven by a bounded iterator whose exhaustion leaves the loop, is a counted
    loop, or has a ranking function: an integer place that the interpreter found strictly monotone on every back edge, at
    every analysis of the loop (`rankings`, collected from the entry-point analyses)"""
    rankings = rankings or {}
    reach = reachable_fns(facts)
    n = 0
    for p in sorted(reach):
        f = facts.fns.get(p)
        if f is None or f.get('derived'):
            continue
        cfg = facts.cfg(p)
        for head, body in cfg.loops.items():
            n += 1
            ok = False
            why = 'no bounded Iterator::next call controls the loop'
            for b in sorted(body):
                t = f['blocks'][b]['term']
                if t['k'] == 'call' and 'def' in t['callee']:
                    r = t['callee'].get('resolved', {}).get('path')
                    self_ty = next((a.get('ty') for a in t['callee'].get('args', []) if isinstance(a, dict) and 'ty' in a), None)
                    if r in BOUNDED_NEXT or (t['callee'].get('def', '').endswith('iterator::Iterator::next') and bounded_iter_ty(self_ty)):
                        # the block after next() must switch on the Option and one arm must leave the loop
                        nb = t.get('target')
                        seen = set()
                        while nb is not None and nb in body and nb not in seen:
                            seen.add(nb)
                            tt = f['blocks'][nb]['term']
                            if tt['k'] == 'switch':
                                succ = term_succs(tt)
                                if any(s not in body for s in succ) or any(leads_out(f, s, body) for s in succ):
                                    ok = True
                                    why = 'driven by %s' % ((r or t['callee'].get('def_with_args', '?')).split('::')[-3:],)
                                break
                            if tt['k'] == 'goto':
                                nb = tt['target']
                            else:
                                break
            if not ok and counted_loop(f, body):
                ok, why = True, 'counted loop: exit guard on a local that is incremented by a positive constant every iteration against a loop-invariant bound'
            rk = rankings.get((p, head), [])
            if not ok and rk and all(r is not None for r in rk):
                ok, why = True, 'ranking function (%d analyses of the loop): %s' % (len(rk), rk[0])
            res.ob('R-LOOP', '%s loop@bb%d' % (p.split('::')[-1], head), ok, why, f['span'], key='R-LOOP:%s:%d' % (p, n))
    res.extra['loops'] = n


def counted_loop(f, body, details=False):
    """`while i < B { ...; i += c }`: some exit switch tests a comparison of local i with an operand not assigned in
    the loop, and i is only ever assigned `i + c` (c >= 1 constant) inside the loop"""
    assigned = {}
    for b in body:
        for s in f['blocks'][b]['stmts']:
            if s['k'] == 'assign' and not s['place']['p']:
                assigned.setdefault(s['place']['l'], []).append(s['rv'])
        t = f['blocks'][b]['term']
        if t['k'] == 'call' and not t['dest']['p']:
            assigned.setdefault(t['dest']['l'], []).append({'k': 'call'})

    def incremented(l):
        """every assignment to l in the loop is l = (l + c).0 with c >= 1"""
        rvs = assigned.get(l, [])
        if not rvs:
            return False
        for rv in rvs:
            if rv['k'] != 'use' or rv['op']['k'] not in ('move', 'copy'):
                return False
            src = rv['op']['place']
            if not (len(src['p']) == 1 and src['p'][0]['k'] == 'field' and src['p'][0]['i'] == 0):
                return False
            tl = src['l']
            trv = assigned.get(tl, [])
            if len(trv) != 1 or trv[0]['k'] != 'binop' or not trv[0]['op'].startswith('Add'):
                return False
            a, b_ = trv[0]['a'], trv[0]['b']
            if not (a['k'] in ('copy', 'move') and a['place'] == {'l': l, 'p': []}):
                # the add may read a copy of l made in the loop
                if not (a['k'] in ('copy', 'move') and not a['place']['p'] and any(r['k'] == 'use' and r['op'].get('place') == {'l': l, 'p': []} for r in assigned.get(a['place']['l'], []))):
                    return False
            if b_['k'] != 'const' or 'int' not in b_['c'].get('val', {}) or int(b_['c']['val']['int']) < 1:
                return False
        return True
    for b in body:
        t = f['blocks'][b]['term']
        if t['k'] != 'switch' or not any(s not in body for s in term_succs(t)):
            # the exit may be one goto away
            if t['k'] != 'switch' or not any(leads_out(f, s, body) for s in term_succs(t)):
                continue
        d = t['discr']
        if d['k'] not in ('copy', 'move') or d['place']['p']:
            continue
        for rv in assigned.get(d['place']['l'], []):
            if rv['k'] == 'binop' and rv['op'] in ('Lt', 'Le', 'Gt', 'Ge', 'Ne'):
                for x, y in ((rv['a'], rv['b']), (rv['b'], rv['a'])):
                    if x['k'] in ('copy', 'move') and not x['place']['p']:
                        il = x['place']['l']
                        # the compared value may be a copy of the counter made in the loop
                        srcs = [il] + [r['op']['place']['l'] for r in assigned.get(il, []) if r['k'] == 'use' and r['op']['k'] in ('copy', 'move') and not r['op']['place']['p']]
                        for cl in srcs:
                            if incremented(cl):
                                inv = y['k'] == 'const' or (y['k'] in ('copy', 'move') and all(not incremented(z) for z in [y['place']['l']]))
                                if inv:
                                    if details:
                                        bound = int(y['c']['val']['int']) if y['k'] == 'const' and 'int' in y['c'].get('val', {}) else None
                                        return (cl, bound, rv['op'])
                                    return True
    return None if details else False


def leads_out(f, b, body, depth=4):
    if b not in body:
        return True
    if depth == 0:
        return False
    t = f['blocks'][b]['term']
    if t['k'] in ('goto', 'drop'):
        return leads_out(f, t['target'], body, depth - 1)
    return False
