"""R-API: the closed-world clauses of the history properties ("never otherwise", "retained unchanged until ...", "from one
tick to the next the output changes by no more than ...") quantify over whatever a caller can do to the object between two
observations.  The rules of each property analyse the operations of the pinned public API (sa/canon_api.json).  A public
`&mut self` method that is NOT in that list is an operation no rule has a specification for: it is analysed from the generic
pre-state of its type and must leave the state the property talks about untouched on every returning path.  (A new method
that only reads, or only writes private bookkeeping the properties do not mention, passes.)"""
import copy
import json
import os

from ..interp import Interp, State, RefV, StructV, InterpError
from .common import run_method, sem_iter, spec_fields_changed, where_of

_API = [None]


def pinned_api():
    if _API[0] is None:
        p = os.path.join(os.path.dirname(os.path.dirname(os.path.abspath(__file__))), 'canon_api.json')
        _API[0] = json.load(open(p)) if os.path.exists(p) else {}
    return _API[0]


def unknown_mutators(facts, type_path):
    known = set(pinned_api().get(type_path, []))
    real = facts.real('adt', type_path)
    out = []
    for p, f in facts.fns.items():
        if f.get('crate') != 'synth_utils' or not f.get('pub') or f.get('kind') != 'assoc_fn' or f.get('derived'):
            continue
        io = f.get('impl_of') or {}
        if (io.get('self_ty') or {}).get('path') != real or 'trait' in io:
            continue
        name = p.split('::')[-1]
        if name in known:
            continue
        loc = f.get('locals') or []
        if f.get('arg_count', 0) >= 1 and len(loc) >= 2 and loc[1]['ty'].get('k') == 'ref' and loc[1]['ty'].get('mut'):
            out.append(p)
    return sorted(out)


def check_new_mutators(res, facts, prop, type_path, make_pre, spec_fields, genv=None, make_interp=None):
    """make_pre(it, st) -> list of (label, abstract self value) covering the generic pre-state of the type"""
    n = 0
    for path in unknown_mutators(facts, type_path):
        f = facts.fns[path]
        where = where_of(facts, path)
        name = path.split('::')[-1]
        it0 = make_interp() if make_interp else Interp(facts)
        st0 = State()
        try:
            pres = make_pre(it0, st0)
        except InterpError as e:
            res.ob('R-API', '%s|pre-state' % name, False, 'analysis failed: %s' % e, where, key='R-API:%s:pre' % name)
            continue
        for label, _ in pres:
            it = make_interp() if make_interp else Interp(facts)
            st = State()
            pre_self = dict(make_pre(it, st))[label]
            pre = copy.deepcopy(pre_self)
            args = []
            for i in range(2, f.get('arg_count', 1) + 1):
                args.append(it.sym_value(st, f['locals'][i]['ty'], 'arg%d' % (i - 1), genv))
            try:
                outs, cell = run_method(it, st, path, pre_self, args, genv=genv)
            except InterpError as e:
                res.ob('R-API', '%s|%s' % (name, label), False, 'analysis failed: %s' % e, where, key='R-API:%s:%s:analysis' % (name, label))
                continue
            res.absorb(it)
            for o in sem_iter(outs):
                if o.status != 'returned':
                    continue
                n += 1
                post = o.cells[cell]
                ch = sorted(set(spec_fields_changed(pre, post, spec_fields))) if isinstance(post, StructV) else ['?']
                res.ob('R-API', 'new public method %s|%s leaves the state of %s alone' % (name, label, prop), not ch,
                       'a public `&mut self` method outside the pinned API (%s) changes %s: between two observations a caller can now '
                       'alter state this property constrains, and no rule has a specification for that operation'
                       % (', '.join(pinned_api().get(type_path, [])), ch), where, key='R-API:%s:%s' % (name, label))
    res.extra.setdefault('unknown_public_mutators_analysed', 0)
    res.extra['unknown_public_mutators_analysed'] += n
    return n


# ---------------------------------------------------------------------------------------
# per-property wiring: type, generic pre-states, the state the closed-world clause is about

def _adsr_pre(facts):
    from . import dds as D
    dds = D.Dds(facts)
    total, index = D.pa_instantiation(facts, D.ADSR)

    def make(it, st):
        dds.invariants(it)
        return [(s_, dds.make_adsr(it, st, s_, total, index, rolled=None)) for s_ in D.STATES]
    return make


def _lfo_pre(facts):
    from . import dds as D
    dds = D.Dds(facts)
    total, index = D.pa_instantiation(facts, D.LFO)
    return lambda it, st: [('any', dds.make_lfo(it, st, total, index, rolled=None))]


def _midi_pre(facts):
    from . import midi as M
    rxf = M.Rx(facts)
    cap = facts.const_int('synth_utils::mono_midi_receiver::HELD_DOWN_NOTE_BUFFER_LEN')

    def make(it, st):
        M.midi_invariants(it)
        return [('len=0', rxf.receiver(it, st, list_len=(0, 0), class_inv=True)), ('len>=1', rxf.receiver(it, st, list_len=(1, cap), class_inv=True))]
    return make


def _quant_pre(facts):
    from . import quant as Q
    qz = Q.Qz(facts)
    return lambda it, st: [('any', qz.quantizer(it, st, cached='consistent'))]


def _ribbon_pre(facts):
    from . import ribbon as R
    rb = R.Rb(facts)

    def make(it, st):
        return [('pressing=%d' % p, rb.controller(it, st, pressing=bool(p))[0]) for p in (0, 1)]
    return make


def _glide_pre(facts):
    from . import glide as G
    from ..rules.common import sem_iter as _si
    gl = G.Gl(facts)

    class _R:       # new_summary only needs absorb()
        def absorb(self, it):
            pass
    it0, outs0, S = gl.new_summary(_R())
    tmpl = next((o.ret for o in _si(outs0) if o.status == 'returned' and isinstance(o.ret, StructV)), None)
    ctx0 = next((o.ctx for o in outs0 if o.status == 'returned'), None)

    def make(it, st):
        if tmpl is None:
            raise InterpError('GlideProcessor::new has no summary')
        st.ctx = ctx0.copy()
        return [('any', gl.processor(it, st, tmpl))]
    return make


def check_api(res, facts, prop):
    """R-API for the property `prop` (no-op for properties without a closed-world clause)"""
    A = 'synth_utils::adsr::Adsr'
    L = 'synth_utils::lfo::Lfo'
    M = 'synth_utils::mono_midi_receiver::MonoMidiReceiver'
    Q = 'synth_utils::quantizer::Quantizer'
    R = 'synth_utils::ribbon_controller::RibbonController'
    G = 'synth_utils::glide_processor::GlideProcessor'
    table = {
        # tick-to-tick continuity: nothing but the pinned operations may move the output, the phase or the latched levels
        'C03': (A, _adsr_pre, {'value', 'state', 'value_when_gate_on_received', 'value_when_gate_off_received', 'phase_accumulator'},
                {'phase_accumulator.sample_rate_hz', 'phase_accumulator.increment', 'phase_accumulator.last_accumulator'}, None),
        'C11': (L, _lfo_pre, {'phase_accumulator'}, {'phase_accumulator.sample_rate_hz', 'phase_accumulator.increment', 'phase_accumulator.last_accumulator', 'phase_accumulator.rolled_over'}, None),
        'C12': (L, _lfo_pre, {'phase_accumulator'}, {'phase_accumulator.sample_rate_hz', 'phase_accumulator.increment', 'phase_accumulator.last_accumulator', 'phase_accumulator.rolled_over'}, None),
        'C04': (M, _midi_pre, {'gate', 'note_num', 'velocity', 'held_down_notes'}, set(), None),
        'C05': (M, _midi_pre, {'gate', 'rising_gate', 'falling_gate', 'held_down_notes'}, set(), None),
        'C07': (Q, _quant_pre, {'allowed'}, set(), None),
        'C09': (Q, _quant_pre, {'cached_conversion', 'allowed'}, set(), None),
        'C13': (G, _glide_pre, {'lpf', 'fs', 'min_fc', 'max_fc'}, set(), None),
        'C14': (G, _glide_pre, {'lpf', 'fs', 'min_fc', 'max_fc', 'cached_t'}, set(), None),
        'C15': (R, _ribbon_pre, {'finger_is_pressing', 'finger_just_pressed', 'finger_just_released', 'num_samples_received', 'num_samples_written',
                                 'finger_press_high_boundary', 'num_to_ignore_up_front', 'buff'}, set(), 'ribbon'),
        'C16': (R, _ribbon_pre, {'current_val', 'finger_press_high_boundary', 'error_const', 'buff', 'num_samples_received', 'num_samples_written',
                                 'num_to_discard_at_end', 'finger_is_pressing'}, set(), 'ribbon'),
    }
    if prop not in table:
        return 0
    ty, pre_factory, roots, ignore, kind = table[prop]
    if not unknown_mutators(facts, ty):
        res.extra['unknown_public_mutators'] = []
        return 0
    res.extra['unknown_public_mutators'] = [p.split('::')[-1] for p in unknown_mutators(facts, ty)]
    genv = None
    if kind == 'ribbon':
        from ..terms import Poly
        genv = {'BUFFER_CAPACITY': Poly.sym('param:BUFFER_CAPACITY')}
    make_pre = pre_factory(facts)
    from . import common as _c
    orig = _c.spec_fields_changed

    def filt(pre, post, spec_roots):
        return [c for c in orig(pre, post, spec_roots) if c not in ignore]
    global spec_fields_changed
    saved = spec_fields_changed
    spec_fields_changed = filt
    try:
        return check_new_mutators(res, facts, prop, ty, make_pre, roots, genv=genv)
    finally:
        spec_fields_changed = saved
