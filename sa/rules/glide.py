"""Rules for the glide processor: C13 (R-GLIDE) and C14 (R-DEADBAND).

The time argument is partitioned along the clamps of the cutoff (t = 0; t = tau/fs with tau in (0,4];
t = 1/(u*fs) with u = f0/fs in [.., 1/4]; t >= 10 s) so that the relation between cutoff and sample rate is
carried exactly by the parametrisation; the coefficient terms produced by the dependency's design function
(analysed from its own MIR) are cleared of their common denominator and checked to be a convex
combination with a pole in [0,1).
"""
import copy
import math
from fractions import Fraction as Fr

from ..terms import (Poly, B, INF, TRUE, FALSE, ZERO, ONE, NAN, bconst, bnot, cmp_term, as_poly, inv_poly, t_div)
from ..terms import t_min as t_min_, t_max as t_max_, PINF_ATOM as PINF_ATOM_
from ..interp import (Interp, State, Num, BoolV, StructV, EnumV, TupleV, RefV, ContV, Opaque, UnitV, InterpError)
from .common import *

GP = 'synth_utils::glide_processor::GlideProcessor'
KNOWN_GP_FIELDS = ('min_fc', 'max_fc', 'fs', 'lpf', 'cached_t')
GP_FIELDS = {'fs', 'lpf', 'cached_t'}
DF1 = 'biquad::DirectForm1'
COEF = 'biquad::coefficients::Coefficients'
FS_MIN, FS_MAX = 100, 192000


def facts_f32(x):
    import struct
    return Fr(struct.unpack('<f', struct.pack('<f', x))[0])


DEAD = facts_f32(0.05)
TOL = Fr(1, 10 ** 6)   # f32 resolution of the filter allowed by the statement of C13


def clear_inv(p):
    """multiply p by the product of its inv(Q) atoms (common denominator); returns (numerator, denominator)"""
    invs = sorted({a for a in p.atoms() if a[0] == 'inv'}, key=repr)
    den = ONE
    num = p
    for a in invs:
        Qp = a[1]
        # highest power
        mp = 0
        for m in num.t:
            for b, pw in m:
                if b == a:
                    mp = max(mp, pw)
        for _ in range(mp):
            t = {}
            for m, c in num.t.items():
                d = dict(m)
                if a in d:
                    if d[a] == 1:
                        del d[a]
                    else:
                        d[a] -= 1
                    term = Poly({tuple(sorted(d.items(), key=lambda x: repr(x[0]))): c})
                else:
                    term = Poly({m: c}) * Qp
                for mm, cc in term.t.items():
                    v = t.get(mm, 0) + cc
                    if v == 0:
                        t.pop(mm, None)
                    else:
                        t[mm] = v
            num = Poly(t)
            den = den * Qp
    return num, den


def opt_num(v):
    """the number held by a plain field or by `Some(x)`; None for `None` / anything else"""
    if isinstance(v, Num):
        return v
    if isinstance(v, EnumV) and v.variant == 1 and isinstance(v.payload.get(1), list) and v.payload[1] and isinstance(v.payload[1][0], Num):
        return v.payload[1][0]
    return None


class Gl:
    def __init__(self, facts):
        self.facts = facts
        df = facts.adt(DF1)
        names = [f['name'] for f in df['variants'][0]['fields']]
        if not {'x1', 'x2', 'y1', 'y2', 'coeffs'} <= set(names):
            raise InterpError('biquad::DirectForm1 layout changed: %s' % names)

    def new_summary(self, res):
        """post-state of GlideProcessor::new(S): gives max_fc/min_fc/fs as terms in S"""
        it = Interp(self.facts)
        st = State()
        S = float_sym(st, 'S', FS_MIN, FS_MAX)
        outs = it.run(it.start(GP + '::new', [S], state=st))
        res.absorb(it)
        return it, outs, S

    def cached_kinds(self, template):
        """the time in effect is held as a plain f32 (with a sentinel) or as an `Option<f32>` (`None` = no time yet): the second
        representation adds the pre-state 'nothing in effect yet' to every partition"""
        v = template.get('cached_t') if template.has('cached_t') else None
        if isinstance(v, EnumV) and v.path.startswith('core::option::Option'):
            return ('some', 'none')
        return ('plain',)

    def processor(self, it, st, template, cached='plain'):
        """abstract GlideProcessor satisfying the invariant established by new(): limits/fs as in the template,
        filter state and cached_t arbitrary, coefficients arbitrary"""
        gp = copy.deepcopy(template)
        lpf = find_lpf(gp)
        if lpf is None:
            raise InterpError('GlideProcessor holds no biquad::DirectForm1 (state must be previous input/output): %r' % (gp,))
        if not gp.has('cached_t'):
            raise InterpError('GlideProcessor.cached_t (anchor of C14: the time currently in effect) is missing: %s' % gp.names)
        for n in ('x1', 'x2', 'y1', 'y2'):
            lpf.set(n, float_sym(st, 'lpf.' + n))
        co = lpf.get('coeffs')
        for n in co.names:
            co.set(n, float_sym(st, 'coef.' + n))
        if isinstance(gp.get('cached_t'), EnumV) and gp.get('cached_t').path.startswith('core::option::Option'):
            if cached == 'none':
                gp.set('cached_t', EnumV('core::option::Option', 0, {0: []}, vnames=['None', 'Some'], targs=gp.get('cached_t').targs))
            else:
                gp.set('cached_t', EnumV('core::option::Option', 1, {1: [float_sym(st, 'cached_t')]}, vnames=['None', 'Some'], targs=gp.get('cached_t').targs))
        else:
            gp.set('cached_t', float_sym(st, 'cached_t'))
        # private state added later (flags, caches, counters) is arbitrary in a reachable pre-state: never the constructor's value
        adt = self.facts.adt(GP)
        located = set((adt.get('canon_paths') or {}).values() and [p[0] for p in adt['canon_paths'].values()])
        from .. import frozen
        _ctor, fr = frozen.frozen_fields(self.facts, GP)
        fr = fr if _ctor is not None and _ctor.endswith('::new') and isinstance(fr, set) else set()
        for i, f in enumerate(adt['variants'][0]['fields']):
            if f['name'] in KNOWN_GP_FIELDS or i in located:
                continue
            if i in fr:
                # set by `new` (the only function that builds a GlideProcessor) and written nowhere else: still the constructor's
                # value, which the template holds as a term in the same sample rate as the limits (sa/frozen.py)
                self.facts.__dict__.setdefault('frozen_links', {}).setdefault(GP, {'constructor': _ctor, 'links': {}})['links']['self.' + f['name']] = 'value given by new()'
                continue
            gp.fields[i] = it.sym_value(st, f['ty'], 'self.' + f['name'])
        return gp


def coefficient_obligations(res, inst, co, ctx, where, rule='R-GLIDE'):
    """convex combination with a pole in [0,1): over the reals, common denominator cleared"""
    terms = {n: co.get(n).term for n in ('a1', 'a2', 'b0', 'b1', 'b2')}
    total = terms['b0'] + terms['b1'] + terms['b2'] - terms['a1'] - terms['a2']
    num, den = clear_inv(total)
    res.ob(rule, inst + '|unit DC gain (b0+b1+b2-a1-a2 = 1)', num == den, 'sum of weights = (%r)/(%r)' % (num, den), where, key='%s:dc:%s' % (rule, inst))
    dlo, dhi = ctx.rng(den)
    res.ob(rule, inst + '|denominator > 0', dlo > 0, 'common denominator %r in [%s,%s]' % (den, _f(dlo), _f(dhi)), where, key='%s:den:%s' % (rule, inst))
    for n, sign in (('b0', 1), ('b1', 1), ('a1', -1)):
        nn, dd = clear_inv(terms[n])
        # bring to the common denominator `den`
        if dd != den:
            nn2, _ = clear_inv(terms[n] * den)
            nn = nn2
        lo, hi = ctx.rng(nn.scale(sign))
        res.ob(rule, inst + '|weight %s%s >= 0' % ('-' if sign < 0 else '', n), lo >= -TOL,
               'numerator of %s%s = %r in [%s,%s] (a negative weight lets the output leave the hull of input and previous output)' % ('-' if sign < 0 else '', n, nn.scale(sign), _f(lo), _f(hi)),
               where, key='%s:sign:%s:%s' % (rule, n, inst))
        if n == 'a1':
            # pole -a1 < 1  <=>  -N_a1 < D
            lo2, hi2 = ctx.rng(den - nn.scale(-1))
            res.ob(rule, inst + '|pole -a1 < 1 (converges)', lo2 > 0, 'D - (-N_a1) = %r in [%s,%s]' % (den - nn.scale(-1), _f(lo2), _f(hi2)), where, key='%s:pole:%s' % (rule, inst))
    for n in ('a2', 'b2'):
        res.ob(rule, inst + '|%s = 0 (single pole)' % n, terms[n] == ZERO, '%s = %r' % (n, terms[n]), where, key='%s:zero:%s:%s' % (rule, n, inst))


def _f(x):
    return x if x in (INF, -INF) else '%.6g' % float(x)


N_PARTS = 6


def time_partitions(st, S, umax, min_fc):
    """(name, t term, extra facts) covering t in [0, inf): the cutoff clamp is piecewise in 1/t, so interiors carry
    strict facts and the two boundary points are separate (constant-like) partitions"""
    parts = []
    parts.append(('t=0', ZERO, []))
    tau = st.ctx.sym_range('tau', Fr(1, 10 ** 9), 1 / umax)
    parts.append(('0<t<1/max_fc', tau * inv_poly(S), [cmp_term('Lt', tau, 1 / umax), cmp_term('Gt', S * inv_poly(tau), S.scale(umax))]))
    parts.append(('t=1/max_fc', inv_poly(S).scale(1 / umax), []))
    u = st.ctx.sym_range('u', Fr(1, 10 ** 7), umax)
    parts.append(('1/max_fc<t<1/min_fc', inv_poly(u * S), [cmp_term('Gt', u * S, min_fc), cmp_term('Lt', u, umax), cmp_term('Lt', u * S, S.scale(umax))]))
    parts.append(('t=1/min_fc', Poly.const(1 / min_fc), []))
    t3 = st.ctx.sym_range('t_long', 1 / min_fc, INF)
    parts.append(('t>1/min_fc', t3, [cmp_term('Gt', t3, 1 / min_fc)]))
    return parts


def limits_from_new(tmpl, ctx, S):
    """(umax = max_fc/fs, min_fc) by role: the constructor keeps the upper cutoff limit in the object as k*fs (a numeric
    field proportional to the sample rate); if no such field exists, umax is read from the design argument of the
    constructor's coefficients (tan(pi*max_fc/fs)).  min_fc is the documented 0.1 Hz (times above 10 s behave like 10 s)"""
    sa = S.term.as_single_atom()
    ks = []

    def walk(v):
        if isinstance(v, Num):
            if len(v.term.t) == 1:
                (m, k), = v.term.t.items()
                if m == ((sa, 1),) and 0 < k <= Fr(1, 2):
                    ks.append(k)
        elif isinstance(v, StructV) and v.path != DF1 and not v.path.startswith('biquad::'):
            for f in v.fields:
                walk(f)
    walk(tmpl)
    if len(set(ks)) == 1:
        return ks[0], facts_f32(0.1)
    lpf = find_lpf(tmpl)
    if lpf is None:
        return None, None
    tans = [a for a in all_atoms_of(lpf.get('coeffs')) if a[0] == 'tan']
    if len(tans) != 1:
        return None, None
    c = tans[0][1].const_value()
    if c is None or c <= 0:
        return None, None
    return c / PI32, facts_f32(0.1)


def find_lpf(gp, depth=0):
    """the biquad the processor owns: a field of type DirectForm1, possibly inside a private sub-struct of the crate"""
    for f in gp.fields:
        if isinstance(f, StructV) and f.path == DF1:
            return f
    if depth < 2:
        for f in gp.fields:
            if isinstance(f, StructV) and f.path.startswith('synth_utils::'):
                r = find_lpf(f, depth + 1)
                if r is not None:
                    return r
    return None


def check_glide(res, facts, prop):
    gl = Gl(facts)
    where_new = where_of(facts, GP + '::new')
    it0, outs0, S = gl.new_summary(res)
    tmpl = None
    for o in sem_iter(outs0):
        if o.status != 'returned' or not isinstance(o.ret, StructV):
            res.ob('R-GLIDE', 'new()', False, 'GlideProcessor::new ends with %s: %s' % (o.status, o.panic_info), where_new, key='R-GLIDE:new')
            continue
        tmpl = o.ret
        ctx0 = o.ctx
    if tmpl is None:
        return
    umax, min_fc = limits_from_new(tmpl, ctx0, S)
    res.ob('R-GLIDE', 'new(): fastest setting readable from the constructed object (limit k*fs) or its design (tan(pi*max_fc/fs))', umax is not None,
           'constructor coefficients %r' % (find_lpf(tmpl),), where_new, key='R-GLIDE:new-limits')
    if umax is None:
        return
    max_fc = S.term.scale(umax)
    res.extra['max_fc_over_fs'] = float(umax)
    if prop == 'C14':
        # the dead-band reference of a fresh processor: either a sentinel that no t >= 0 is close to (the first call is always
        # honoured), or the time whose design the constructor actually installed
        cv0 = tmpl.get('cached_t') if tmpl.has('cached_t') else None
        ct0 = opt_num(cv0).term if opt_num(cv0) is not None else None
        c0 = ct0.const_value() if ct0 is not None else None
        ok0, why0 = False, 'cached_t after new() = %r' % (cv0,)
        if isinstance(cv0, EnumV) and cv0.variant == 0 and cv0.path.startswith('core::option::Option'):
            # no time in effect yet: what a first call does from this state is decided by the `None` pre-state of every partition below
            ok0, why0 = True, 'None: no time in effect'
        elif ct0 is not None and ct0.inf_sign() == -1:
            ok0, why0 = True, 'sentinel -inf'
        elif c0 is not None and c0 < -DEAD:
            ok0, why0 = True, 'sentinel %s: every t >= 0 is further than the dead band' % float(c0)
        elif c0 is not None and c0 >= 0:
            lpf0 = find_lpf(tmpl)
            tans = [a for a in all_atoms_of(lpf0.get('coeffs')) if a[0] == 'tan'] if lpf0 is not None else []
            inv_t = Poly.atom(PINF_ATOM_) if c0 == 0 else Poly.const(1 / c0)
            f0 = t_min_(t_max_(inv_t, Poly.const(min_fc), ctx0, 'fmax'), max_fc, ctx0, 'fmin')
            want = (Poly.const(PI32 * 2) * f0 * inv_poly(S.term)).scale(Fr(1, 2))
            ok0 = len(tans) == 1 and poly_close(tans[0][1], want, ctx0)
            why0 = 'cached_t = %s but the installed design argument is %s (expected %r)' % (float(c0), [repr(a[1]) for a in tans], want)
        res.ob('R-DEADBAND', 'new(): dead-band reference is a sentinel or the time actually in effect', ok0, why0, where_new, key='R-DEADBAND:new-reference')
    if prop == 'C13':
        lpf0 = find_lpf(tmpl)
        if isinstance(lpf0, StructV) and lpf0.path == DF1:
            coefficient_obligations(res, 'new()', lpf0.get('coeffs'), ctx0, where_new)
            zero_state = all(lpf0.get(n).term == ZERO for n in ('x1', 'x2', 'y1', 'y2'))
            res.ob('R-GLIDE', 'new(): filter starts at rest (output 0)', zero_state, 'initial state %r' % (lpf0,), where_new, key='R-GLIDE:new-state')
        else:
            res.ob('R-GLIDE', 'new(): filter structure', False, 'lpf = %r: state is not (previous input, previous output)' % (lpf0,), where_new, key='R-GLIDE:new-structure')
            return
    # ---- set_time over the partitions of t
    where = where_of(facts, GP + '::set_time')
    n = 0
    n_honoured = 0
    for pi, ckind in [(pi_, ck_) for pi_ in range(N_PARTS) for ck_ in gl.cached_kinds(tmpl)]:
        it = Interp(facts)
        st = State()
        st.ctx = ctx0.copy()
        try:
            gp = gl.processor(it, st, tmpl, cached=ckind)
        except InterpError as e:
            res.ob('R-GLIDE', 'set_time', False, str(e), where, key='R-GLIDE:structure')
            return
        pname, tterm, facts_ = time_partitions(st, S.term, umax, min_fc)[pi]
        if ckind == 'none':
            pname += '|no time in effect'
        for f in facts_:
            st.ctx.assume(f)
        pre = copy.deepcopy(gp)
        tval = Num(tterm, 'f32')
        try:
            outs, cell = run_method(it, st, GP + '::set_time', gp, [tval])
        except InterpError as e:
            res.ob('R-GLIDE', 'set_time|' + pname, False, 'analysis failed: %s' % e, where)
            continue
        res.absorb(it)
        cached_n = opt_num(pre.get('cached_t'))
        cached = cached_n.term if cached_n is not None else None
        pname_full, pname = pname, pname.split('|')[0]
        for o in sem_iter(outs):
            n += 1
            inst = 'set_time|' + pname_full
            if o.status != 'returned':
                res.ob('R-GLIDE' if prop == 'C13' else 'R-DEADBAND', inst, False, 'path ends with %s: %s' % (o.status, o.panic_info), where, key='R-GLIDE:%s:%s' % (inst, o.status))
                continue
            post = o.cells[cell]
            ch = set(spec_fields_changed(pre, post, GP_FIELDS))
            if cached is None:
                within_a = within_b = False      # nothing in effect: no request is "close to the time in effect"
            else:
                within_a = o.ctx.decide(cmp_term('Le', tterm - cached, DEAD))
                within_b = o.ctx.decide(cmp_term('Le', cached - tterm, DEAD))
            honoured = any(c.startswith('lpf.coeffs') for c in ch)
            if prop == 'C14':
                if not honoured:
                    res.ob('R-DEADBAND', inst + '|ignored only within the dead band', within_a is True and within_b is True,
                           'call ignored on a path where |t - cached_t| <= 0.05 is not implied (t-cached<=0.05: %s, cached-t<=0.05: %s)' % (within_a, within_b), where, key='R-DEADBAND:ignored:' + pname_full)
                    res.ob('R-DEADBAND', inst + '|ignored call writes nothing', not ch, 'ignored call changes %s (the dead-band reference must stay the time in effect)' % sorted(ch), where, key='R-DEADBAND:ignored-writes:' + pname_full)
                else:
                    res.ob('R-DEADBAND', inst + '|honoured only outside the dead band', within_a is False or within_b is False,
                           'coefficients recomputed on a path that does not exclude |t - cached_t| <= 0.05', where, key='R-DEADBAND:honoured:' + pname_full)
                    res.ob('R-DEADBAND', inst + '|cached_t := t together with the coefficients', same(opt_num(post.get('cached_t')), tval),
                           'cached_t after an honoured call = %r, expected t' % (post.get('cached_t'),), where, key='R-DEADBAND:cached:' + pname_full)
            if honoured:
                n_honoured += 1
                lpf1 = find_lpf(post)
                co = lpf1.get('coeffs')
                state_ch = [c for c in ch if c.startswith('lpf.') and not c.startswith('lpf.coeffs')]
                other = [c for c in ch if not c.startswith('lpf.') and c != 'cached_t']
                if prop == 'C13':
                    res.ob('R-GLIDE', inst + '|set_time only replaces coefficients', not state_ch and not other, 'also changes %s' % sorted(state_ch + other), where, key='R-GLIDE:state:' + pname_full)
                    coefficient_obligations(res, inst, co, o.ctx, where)
                else:
                    # cutoff selection: f0 = clamp(1/t, 0.1, max_fc) shows in the design argument W = tan(pi*f0/fs)
                    tans = [a for a in all_atoms_of(co) if a[0] == 'tan']
                    exp = {'t=0': S.term.scale(0) + Poly.const(Fr(math.pi)).scale(Fr(1, 4)) if False else None}
                    want = expected_tan_arg(pname, S.term, tterm, max_fc)
                    ok = len(tans) == 1 and want is not None and poly_close(tans[0][1], want, o.ctx)
                    if len(tans) == 1:
                        # the shape the response lemma is about: a1 = (W-1)/(1+W), b0 = b1 = W/(1+W), W = tan(pi*f0/fs)
                        Wt = Poly.atom(tans[0])
                        na1, d1 = clear_inv(co.get('a1').term)
                        nb0, d0 = clear_inv(co.get('b0').term)
                        nb1, d2 = clear_inv(co.get('b1').term)
                        shape = na1 == Wt - 1 and nb0 == Wt and nb1 == Wt and d1 == Wt + 1 and d0 == Wt + 1 and d2 == Wt + 1
                        res.ob('R-RESPONSE', inst + '|single-pole shape a1=(W-1)/(1+W), b0=b1=W/(1+W)', shape,
                               'a1 = (%r)/(%r), b0 = (%r)/(%r)' % (na1, d1, nb0, d0), where, key='R-RESPONSE:shape:' + pname_full)
                    res.ob('R-DEADBAND', inst + '|cutoff = clamp(1/t, 0.1 Hz, max_fc)', ok,
                           'design argument(s) %s; expected tan(pi*f0/fs) with pi*f0/fs = %r' % ([repr(a[1]) for a in tans], want), where, key='R-DEADBAND:cutoff:' + pname_full)
    if prop == 'C14':
        response_lemma(res)
    res.floor('set_time_outcomes', n, 12)
    res.floor('set_time_honoured', n_honoured, 6)
    # C13: the recurrence itself; C14: premise of the response lemma
    check_process(res, facts, gl, tmpl, ctx0)


def response_lemma(res):
    """Lemma about the decided formulas (interval arithmetic over n = t*fs, no execution of the crate):
    with b0 = b1 = W/(1+W), -a1 = p = (1-W)/(1+W), W = tan(pi/n) (cutoff 1/t), the unit step response of
    y = b0 x + b1 x1 - a1 y1 from rest has error e[k] = p^k (1+p)/2, so coverage(k) = 1 - p^k (1+p)/2.
    Claims of C14 for at least 100 samples per t: coverage(t) >= 99.5 %, 40 % <= coverage(t/10) <= 55 % (sample index
    taken with +-1 slack); fastest setting (W = 1 up to 1e-6): settled within 8 samples."""
    lo_n, hi_n = 100.0, 10 * 192000.0
    ratio = 1.0005
    worst_full, lo_tenth, hi_tenth = 1.0, 1.0, 0.0
    n0 = lo_n
    cells = 0
    pad = 1e-12
    while n0 < hi_n:
        n1 = min(n0 * ratio, hi_n)
        W_hi = math.tan(math.pi / n0) * (1 + 1e-9) + pad      # W decreases with n
        W_lo = math.tan(math.pi / n1) * (1 - 1e-9) - pad
        p_lo = (1 - W_hi) / (1 + W_hi)
        p_hi = (1 - W_lo) / (1 + W_lo)
        if not (0 < p_lo <= p_hi < 1):
            res.ob('R-RESPONSE', 'lemma: pole in (0,1) for n in [%g,%g]' % (n0, n1), False, 'p in [%r,%r]' % (p_lo, p_hi))
            return

        def err_bounds(k_lo, k_hi):
            return p_lo ** k_hi * (1 + p_lo) / 2, p_hi ** k_lo * (1 + p_hi) / 2
        e_lo, e_hi = err_bounds(n0 - 1, n1 + 1)
        worst_full = min(worst_full, 1 - e_hi)
        e_lo, e_hi = err_bounds(math.floor(n0 / 10) - 1, math.ceil(n1 / 10) + 1)
        lo_tenth = min(lo_tenth, 1 - e_hi)
        hi_tenth = max(hi_tenth, 1 - e_lo)
        n0 = n1
        cells += 1
    res.ob('R-RESPONSE', 'lemma: >= 99.5 %% of the step after t (n = t*fs in [100, 1.92e6], %d cells)' % cells, worst_full >= 0.995, 'worst coverage %.5f' % worst_full, key='R-RESPONSE:full')
    res.ob('R-RESPONSE', 'lemma: 40 %%..55 %% of the step after t/10', lo_tenth >= 0.40 and hi_tenth <= 0.55, 'coverage in [%.4f, %.4f]' % (lo_tenth, hi_tenth), key='R-RESPONSE:tenth')
    # fastest setting: |p| <= 2e-6 (W within 1e-6 of 1): e[k] = p^k (1+p)/2 is below f32 resolution from k = 2 on
    p = 2e-6
    res.ob('R-RESPONSE', 'lemma: fastest setting settles within 8 samples', p ** 2 * (1 + p) / 2 < 1e-7, 'error after 2 samples <= %.3g' % (p ** 2 * (1 + p) / 2), key='R-RESPONSE:fastest')
    res.extra['response_lemma'] = {'cells': cells, 'min_coverage_at_t': worst_full, 'coverage_at_t_over_10': [lo_tenth, hi_tenth]}


def all_atoms_of(co):
    from .quant import all_atoms
    acc = set()
    for f in co.fields:
        if isinstance(f, Num):
            all_atoms(f.term, acc)
    return acc


PI32 = facts_f32(math.pi)


def expected_tan_arg(pname, S, tterm, max_fc):
    """pi * f0 / fs per partition (f32 constant pi as the dependency uses it)"""
    two_pi = PI32 * 2
    if pname in ('t=0', '0<t<1/max_fc', 't=1/max_fc'):
        f0 = max_fc
    elif pname == '1/max_fc<t<1/min_fc':
        f0 = inv_poly(tterm)
    else:
        f0 = Poly.const(facts_f32(0.1))
    return (Poly.const(two_pi) * f0 * inv_poly(S)).scale(Fr(1, 2))


def poly_close(a, b, ctx, tol=Fr(1, 10 ** 5)):
    """same monomials, coefficients equal up to relative tol (f32 rounding of constant products)"""
    if set(a.t) != set(b.t):
        return False
    for m, c in a.t.items():
        c2 = b.t[m]
        if abs(c - c2) > tol * max(abs(c), abs(c2)):
            return False
    return True


def check_process(res, facts, gl, tmpl, ctx0):
    """process(x) is the five-term recurrence on (x, previous inputs, previous outputs) and shifts the state"""
    it = Interp(facts)
    st = State()
    st.ctx = ctx0.copy()
    gp = gl.processor(it, st, tmpl)
    pre = copy.deepcopy(gp)
    x = float_sym(st, 'x')
    outs, cell = run_method(it, st, GP + '::process', gp, [x])
    res.absorb(it)
    where = where_of(facts, GP + '::process')
    l0 = find_lpf(pre)
    c = l0.get('coeffs')
    g = lambda n: c.get(n).term
    s = lambda n: l0.get(n).term
    exp = g('b0') * x.term + g('b1') * s('x1') + g('b2') * s('x2') - g('a1') * s('y1') - g('a2') * s('y2')
    for o in sem_iter(outs):
        ok = o.status == 'returned' and isinstance(o.ret, Num) and o.ret.term == exp
        res.ob('R-GLIDE', 'process: y = b0*x + b1*x1 + b2*x2 - a1*y1 - a2*y2', ok, 'process returns %r' % (o.ret,), where, key='R-GLIDE:recurrence')
        if o.status != 'returned':
            continue
        l1 = find_lpf(o.cells[cell])
        ok2 = l1.get('x1').term == x.term and l1.get('x2').term == s('x1') and l1.get('y1').term == exp and l1.get('y2').term == s('y1') and same(l1.get('coeffs'), c)
        res.ob('R-GLIDE', 'process: state = (previous input, previous output)', ok2, 'state after process: %r' % (l1,), where, key='R-GLIDE:state-shift')
        ch = [x_ for x_ in spec_fields_changed(pre, o.cells[cell], GP_FIELDS) if not x_.startswith('lpf.')]
        res.ob('R-GLIDE', 'process: touches only the filter state', not ch, 'changes %s' % ch, where, key='R-GLIDE:process-writes')
