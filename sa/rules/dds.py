"""Rules for the phase accumulator, the ADSR and the LFO:
C01 (R-BLEND, R-TABLE), C02 (R-FSM, R-INC, R-ROLLOVER), C03 (R-BITS, R-INTERP, R-LATCH),
C10 (R-WAVE), C11 (R-PHASE, R-WRITESET), C12 (R-BITS, R-INTERP wrap, R-TABLE).

The accumulator is given in the DDS pair form  acc = I*2^f + L  (I the table cell, L the position in
the cell) so that index()/fraction()/ramp() can be compared with the documented bit split as terms.
"""
import copy
import math
from fractions import Fraction as Fr

from ..terms import (Poly, B, INF, TRUE, FALSE, ZERO, ONE, bconst, bnot, cmp_term, t_app, as_poly, t_mod, t_min,
                     t_f2i, t_frem, inv_poly)
from ..interp import (Interp, State, Num, BoolV, StructV, EnumV, TupleV, RefV, ContV, Opaque, UnitV, InterpError)
from .common import *

PA = 'synth_utils::phase_accumulator::PhaseAccumulator'
PAF = 'synth_utils::phase_accumulator::PhaseAccumulator::<TOTAL_NUM_BITS, NUM_INDEX_BITS>::'
ADSR = 'synth_utils::adsr::Adsr'
LFO = 'synth_utils::lfo::Lfo'
STATE = 'synth_utils::adsr::State'
WAVE = 'synth_utils::lfo::Waveshape'
TP = 'synth_utils::adsr::TimePeriod'
SL = 'synth_utils::adsr::SustainLevel'
T_ATTACK = 'synth_utils::lookup_tables::ADSR_ATTACK_TABLE'
T_DECAY = 'synth_utils::lookup_tables::ADSR_DECAY_TABLE'
T_SINE = 'synth_utils::lookup_tables::SINE_TABLE'

FS_MIN, FS_MAX = 100, 192000


def pa_instantiation(facts, owner, field='phase_accumulator'):
    """(TOTAL, INDEX) const generic arguments of the accumulator embedded in `owner`"""
    adt = facts.adt(owner)
    for f in adt['variants'][0]['fields']:
        if f['name'] == field:
            if f['ty'].get('path', '').split('::')[-1] != PA.split('::')[-1]:
                raise InterpError('%s.%s is not a PhaseAccumulator any more' % (owner, field))
            vals = []
            for a in f['ty']['args']:
                c = a.get('const', {})
                if 'int' not in c:
                    raise InterpError('const generic argument of %s.%s not evaluated: %r' % (owner, field, c))
                vals.append(int(c['int']))
            return vals[0], vals[1]
    raise InterpError('%s has no field %s' % (owner, field))


def clamp_range(facts, conv_path, finite_only=False):
    """output range of a clamping From<f32> conversion over all f32 inputs incl. NaN and +-inf (R-CLAMP core);
    finite_only: over the real inputs only (C17 is stated for finite arguments)"""
    lo_all, hi_all = INF, -INF
    details = []
    for part, rng in ((('real', (-INF, INF)),) if finite_only else (('real', (-INF, INF)), ('nan', None))):
        it = Interp(facts)
        st = State()
        if rng is None:
            from ..terms import NAN
            x = Num(NAN, 'f32')
        else:
            x = float_sym(st, 'x', *rng)
        st2 = it.start(conv_path, [x], state=st)
        outs = it.run(st2)
        for o in sem_iter(outs):
            if o.status != 'returned' or not isinstance(o.ret, StructV):
                raise InterpError('conversion %s does not return a value on partition %s (%s)' % (conv_path, part, o.panic_info))
            t = o.ret.fields[0].term
            if t.is_nan():
                return None, None, ['NaN reaches the stored value on partition %s' % part]
            lo, hi = o.ctx.rng(t)
            lo_all, hi_all = min(lo_all, lo), max(hi_all, hi)
            details.append('%s: %r in [%s,%s]' % (part, t, lo, hi))
    return lo_all, hi_all, details


def calc_value_path(facts):
    """the private helper that computes the output level from the state: `Adsr::calc_value`, or, if it was renamed, the
    only non-public `fn(&Adsr) -> f32` of the impl (role: tick stores its result in `value`)"""
    p = ADSR + '::calc_value'
    if p in facts.fns:
        return p
    c = []
    for path, f in facts.fns.items():
        if f.get('crate') != 'synth_utils' or f.get('pub') or f.get('kind') != 'assoc_fn' or f.get('arg_count') != 1:
            continue
        io = f.get('impl_of') or {}
        if (io.get('self_ty') or {}).get('path') != facts.real('adt', ADSR) or 'trait' in io:
            continue
        loc = f.get('locals') or []
        if len(loc) >= 2 and loc[0]['ty'].get('n') == 'f32' and loc[1]['ty'].get('k') == 'ref' and not loc[1]['ty'].get('mut'):
            c.append(path)
    if len(c) == 1:
        return c[0]
    if not c:
        # turned into a free function of the crate: the only non-public `fn(&Adsr) -> f32` that `tick` calls
        real = facts.real('adt', ADSR)
        callees = set()
        tick = facts.fns.get(ADSR + '::tick')
        for b in (tick or {}).get('blocks', []):
            t = b['term']
            if t['k'] == 'call' and 'def' in t['callee']:
                callees.add((t['callee'].get('resolved') or {}).get('path') or t['callee']['def'])
        for path, f in facts.fns.items():
            if f.get('crate') != 'synth_utils' or f.get('pub') or f.get('kind') not in ('fn', 'free_fn', 'assoc_fn') or f.get('arg_count') != 1 or path not in callees:
                continue
            loc = f.get('locals') or []
            if len(loc) >= 2 and loc[0]['ty'].get('n') == 'f32' and loc[1]['ty'].get('k') == 'ref' and not loc[1]['ty'].get('mut') \
                    and (loc[1]['ty'].get('ty') or {}).get('path') == real:
                c.append(path)
        if len(c) == 1:
            return c[0]
    raise InterpError('Adsr::calc_value (private helper computing the output level) not found and not identifiable by signature: candidates %s' % c)


class Dds:
    def __init__(self, facts):
        self.facts = facts
        _FACTS[0] = facts
        self.tp_range = None
        self.sl_range = None
        self.finite_inputs = False  # C17: the parameter ranges over finite arguments only
        self.need_levels = False    # switched on by the rules that read the latched levels (C01, C03)

    def invariants(self, it):
        """type invariants of the parameter newtypes, computed from their own conversion functions"""
        if self.tp_range is None:
            lo, hi, _ = clamp_range(self.facts, '<synth_utils::adsr::TimePeriod as core::convert::From<f32>>::from', self.finite_inputs)
            self.tp_range = (lo, hi)
            lo, hi, _ = clamp_range(self.facts, '<synth_utils::adsr::SustainLevel as core::convert::From<f32>>::from', self.finite_inputs)
            self.sl_range = (lo, hi)

        def mk(r):
            def f(st, sv):
                for fld in sv.fields:
                    a = fld.term.as_single_atom()
                    if a is not None and r[0] is not None:
                        st.ctx.ranges[a] = r
            return f
        it.invariants[TP] = mk(self.tp_range)
        it.invariants[SL] = mk(self.sl_range)

    def interp(self):
        it = Interp(self.facts)
        self.invariants(it)
        return it

    def make_pa(self, it, st, total, index, name='pa', acc='pair', inc_range=None, rolled=False, fs_range=(FS_MIN, FS_MAX)):
        """abstract accumulator satisfying the class invariant (mask = 2^T-1, acc <= mask)"""
        targs = [{'const': {'int': str(total)}}, {'const': {'int': str(index)}}]
        pa = it.sym_value(st, adt_ty(PA, targs), name)
        f = total - index

        def setf(n, v):
            pa.set(n, v)
        st.ctx.ranges[pa.get('sample_rate_hz').term.as_single_atom()] = (Fr(fs_range[0]), Fr(fs_range[1]))
        # `rollover_mask` / `last_accumulator` are private bookkeeping the properties do not talk about: optional (a
        # mask kept as an associated constant, a dropped write-only copy are the same accumulator)
        if pa.has('rollover_mask'):
            setf('rollover_mask', Num(Poly.const((1 << total) - 1), 'u32'))
        if acc == 'pair':
            I = st.ctx.sym_range(name + '.I', 0, (1 << index) - 1, integer=True)
            L = st.ctx.sym_range(name + '.L', 0, (1 << f) - 1, integer=True)
            setf('accumulator', Num(I.scale(1 << f) + L, 'u32'))
        elif isinstance(acc, Poly):
            setf('accumulator', Num(acc, 'u32'))
        else:
            st.ctx.ranges[pa.get('accumulator').term.as_single_atom()] = (Fr(0), Fr((1 << total) - 1))
        if pa.has('last_accumulator'):
            st.ctx.ranges[pa.get('last_accumulator').term.as_single_atom()] = (Fr(0), Fr((1 << total) - 1))
        if inc_range is not None:
            st.ctx.ranges[pa.get('increment').term.as_single_atom()] = (Fr(inc_range[0]), Fr(inc_range[1]))
        if rolled is not None:
            setf('rolled_over', BoolV(bconst(rolled)))
        return pa

    def genv(self, total, index):
        return {'TOTAL_NUM_BITS': Poly.const(total), 'NUM_INDEX_BITS': Poly.const(index)}

    def make_adsr(self, it, st, state, total, index, **kw):
        a = it.sym_value(st, adt_ty(ADSR), 'self')
        pa = self.make_pa(it, st, total, index, name='self.pa', **kw)
        a.set('phase_accumulator', pa)
        a.set('state', make_enum(self.facts, STATE, state))
        for n in ('value_when_gate_on_received', 'value_when_gate_off_received', 'value'):
            if a.has(n):
                st.ctx.ranges[a.get(n).term.as_single_atom()] = (Fr(0), Fr(1))
            elif self.need_levels:
                raise InterpError('Adsr.%s (anchor of C01/C03: the latched start levels and the output) is missing: %s' % (n, a.names))
        return a

    def make_lfo(self, it, st, total, index, **kw):
        l = it.sym_value(st, adt_ty(LFO), 'self')
        pa = self.make_pa(it, st, total, index, name='self.pa', **kw)
        l.set('phase_accumulator', pa)
        return l


def call_pa(dds, it, st, meth, pa, args, total, index):
    cell = st.new_cell(pa)
    st2 = it.start(PAF + meth, [receiver_arg(it, PAF + meth, cell, pa)] + args, genv=dds.genv(total, index), state=st)
    return it.run(st2), cell


# ---------------------------------------------------------------------------------------
# R-BITS

def check_bits(res, facts, owners, which=('index', 'fraction', 'ramp')):
    """index() == top NUM_INDEX_BITS bits, fraction() == low bits scaled to [0,1], ramp() == acc/2^T,
    for every instantiation of the accumulator found in `owners`.  `which` selects the accessors the calling
    property depends on ('fraction_range' only requires fraction() to stay in [0,1])."""
    dds = Dds(facts)
    n = 0
    for owner in owners:
        total, index = pa_instantiation(facts, owner)
        f = total - index
        it = dds.interp()
        st = State()
        pa = dds.make_pa(it, st, total, index)
        I, L = Poly.sym('pa.I'), Poly.sym('pa.L')
        inst = '%s<%d,%d>' % (owner.split('::')[-1], total, index)
        outs, _ = call_pa(dds, it, st, 'index', copy.deepcopy(pa), [], total, index) if 'index' in which else ([], None)
        res.absorb(it)
        for o in sem_iter(outs):
            ok = o.status == 'returned' and isinstance(o.ret, Num) and o.ret.term == I
            res.ob('R-BITS', inst + ' index()', ok, 'index() = %r for acc = I*2^%d + L; expected I (the top %d bits)' % (o.ret, f, index),
                   where_of(facts, PAF + 'index'), key='R-BITS:index:' + inst)
            n += 1
        outs, _ = call_pa(dds, it, State_like(st), 'fraction', copy.deepcopy(pa), [], total, index) if ('fraction' in which or 'fraction_range' in which) else ([], None)
        for o in sem_iter(outs):
            if 'fraction' not in which:
                lo, hi = o.ctx.rng(o.ret.term) if o.status == 'returned' and isinstance(o.ret, Num) else (-INF, INF)
                res.ob('R-BITS', inst + ' fraction() in [0,1]', lo >= 0 and hi <= 1, 'fraction() = %r in [%s,%s]' % (o.ret, lo, hi),
                       where_of(facts, PAF + 'fraction'), key='R-BITS:fraction-range:' + inst)
                n += 1
                continue
            ok = o.status == 'returned' and isinstance(o.ret, Num) and o.ret.term in (L.scale(Fr(1, (1 << f) - 1)), L.scale(Fr(1, 1 << f)))
            res.ob('R-BITS', inst + ' fraction()', ok,
                   'fraction() = %r for acc = I*2^%d + L; expected L/(2^%d-1) or L/2^%d (position inside the cell only)' % (o.ret, f, f, f),
                   where_of(facts, PAF + 'fraction'), key='R-BITS:fraction:' + inst)
            n += 1
        outs, _ = call_pa(dds, it, State_like(st), 'ramp', copy.deepcopy(pa), [], total, index) if ('ramp' in which or 'ramp_cast' in which) else ([], None)
        for o in sem_iter(outs):
            if 'ramp' not in which:
                continue        # 'ramp_cast': only the exactness of the int -> float conversion inside ramp() is judged (R-EXACT below)
            exp = (I.scale(1 << f) + L).scale(Fr(1, 1 << total))
            ok = o.status == 'returned' and isinstance(o.ret, Num) and o.ret.term == exp
            res.ob('R-BITS', inst + ' ramp()', ok, 'ramp() = %r; expected acc/2^%d' % (o.ret, total),
                   where_of(facts, PAF + 'ramp'), key='R-BITS:ramp:' + inst)
            n += 1
        # R-EXACT: the phase is handed to the float domain without rounding.  f32 holds every integer of magnitude <= 2^24
        # (and every power of two); a wider accumulator would be quantised by `as f32` and the waveforms would move in
        # steps larger than the phase step (the exactness clauses of C10-C12 and the interpolation of C03 rest on this).
        seen = set()
        for fn_, ty_, term, lo, hi in it.int_float_casts:
            if not fn_.startswith(PAF.rstrip(':')) and 'phase_accumulator' not in fn_:
                continue
            mant = 24 if ty_ == 'f32' else 53
            c = term.const_value()
            if c is not None:
                ci = abs(int(c))
                while ci and ci % 2 == 0:
                    ci //= 2
                exact = c == int(c) and ci < (1 << mant)
            else:
                exact = lo >= -(1 << mant) and hi <= (1 << mant)
            k = (fn_.split('::')[-1], repr(term))
            if k in seen:
                continue
            seen.add(k)
            res.ob('R-EXACT', inst + ' %s: integer -> %s conversion is exact' % (fn_.split('::')[-1], ty_), exact,
                   '%r in [%s, %s] does not fit the %d-bit significand of %s: the phase is rounded before the waveform is computed' % (term, lo, hi, mant, ty_),
                   where_of(facts, fn_), key='R-EXACT:%s:%s:%s' % (inst, fn_.split('::')[-1], len(seen)))
            n += 1
    return n


def State_like(st):
    """fresh state sharing the symbol ranges of st (each summary starts from the same abstract pre-state)"""
    s = State()
    s.ctx = st.ctx.copy()
    s.fresh = st.fresh
    return s


# ---------------------------------------------------------------------------------------
# tables (constant data)

def table_checks(res, facts, which):
    tb = facts.tables
    if 'attack' in which:
        a = tb.get(T_ATTACK)
        d = tb.get(T_DECAY)
        res.ob('R-TABLE', 'attack/decay tables present', a is not None and d is not None, 'lookup tables not found as evaluated constants')
        if a is None or d is None:
            return
        n = len(a)
        res.ob('R-TABLE', 'attack: non-decreasing', all(a[i] <= a[i + 1] for i in range(n - 1)), 'first decreasing step at %s' % next((i for i in range(n - 1) if a[i] > a[i + 1]), None), T_ATTACK)
        res.ob('R-TABLE', 'attack: first 0, last exactly 1.0, within [0,1]', a[0] == 0 and a[-1] == 1 and min(a) >= 0 and max(a) <= 1, 'first %s last %s min %s max %s' % (float(a[0]), float(a[-1]), float(min(a)), float(max(a))), T_ATTACK)
        res.ob('R-TABLE', 'decay: non-increasing', all(d[i] >= d[i + 1] for i in range(n - 1)), 'first increasing step at %s' % next((i for i in range(n - 1) if d[i] < d[i + 1]), None), T_DECAY)
        res.ob('R-TABLE', 'decay: first exactly 1.0, last exactly 0.0, within [0,1]', d[0] == 1 and d[-1] == 0 and min(d) >= 0 and max(d) <= 1, 'first %s last %s' % (float(d[0]), float(d[-1])), T_DECAY)
        res.ob('R-TABLE', 'phase boundary: attack end = decay start', a[-1] == d[0], '%s vs %s' % (float(a[-1]), float(d[0])))
        # documented RC curves (generator defaults: linspace(0,4,N); attack truncated at 1/3 of the time constants)
        xs = [4.0 * i / (n - 1) for i in range(n)]
        att = [1 - math.exp(-x / 3.0) for x in xs]
        att = [v / att[-1] for v in att]
        dec = [math.exp(-x) for x in xs]
        dec = [(v - dec[-1]) / (dec[0] - dec[-1]) for v in dec]
        ea = max(abs(float(a[i]) - att[i]) for i in range(n))
        ed = max(abs(float(d[i]) - dec[i]) for i in range(n))
        res.ob('R-TABLE', 'attack nodes follow the documented truncated RC curve', ea <= 1e-5, 'max node error %.3g' % ea, T_ATTACK)
        res.ob('R-TABLE', 'decay nodes follow the documented RC curve', ed <= 1e-5, 'max node error %.3g' % ed, T_DECAY)
        # interpolation error bound: max second difference / 8
        ca = max(abs(float(a[i - 1] - 2 * a[i] + a[i + 1])) for i in range(1, n - 1)) / 8
        cd = max(abs(float(d[i - 1] - 2 * d[i] + d[i + 1])) for i in range(1, n - 1)) / 8
        res.ob('R-TABLE', 'piecewise-linear interpolation error << 0.5%', ca + ea <= 0.005 and cd + ed <= 0.005, 'curvature terms %.3g / %.3g' % (ca, cd))
        step = max(max(a[i + 1] - a[i] for i in range(n - 1)), max(d[i] - d[i + 1] for i in range(n - 1)))
        res.ob('R-TABLE', 'one table step + curve error <= 0.5% (so any in-cell position in [0,1] stays within tolerance)', float(step) + max(ea, ed) <= 0.005,
               'max table step %.5f' % float(step))
        res.extra['adsr_max_slope_per_cycle'] = {'attack': float(max(a[i + 1] - a[i] for i in range(n - 1)) * n), 'decay': float(max(d[i] - d[i + 1] for i in range(n - 1)) * n)}
        res.floor('adsr_table_cells', n, 1024)
    if 'sine' in which or 'sine_accuracy' in which or 'sine_continuity' in which:
        # 'sine_accuracy' (C10: values within tolerance of the sine) / 'sine_continuity' (C12: no glitch at the wrap, bounded
        # slope) / 'sine' (both)
        acc_ = 'sine' in which or 'sine_accuracy' in which
        cont_ = 'sine' in which or 'sine_continuity' in which
        s = tb.get(T_SINE)
        res.ob('R-TABLE', 'sine table present', s is not None, 'SINE_TABLE not found')
        if s is None:
            return
        n = len(s)
        res.ob('R-TABLE', 'sine within [-1,1]', min(s) >= -1 and max(s) <= 1, 'min %s max %s' % (float(min(s)), float(max(s))), T_SINE)
        if cont_:
            res.ob('R-TABLE', 'sine wrap: |table[N-1] - table[0]| <= 1e-6', abs(s[-1] - s[0]) <= Fr(1, 10 ** 6), 'diff %s' % float(abs(s[-1] - s[0])), T_SINE)
        if acc_:
            worst = 0.0
            for i in range(n):
                j = (i + 1) % n
                e0 = abs(float(s[i]) - math.sin(2 * math.pi * i / n))
                e1 = abs(float(s[j]) - math.sin(2 * math.pi * (i + 1) / n))
                worst = max(worst, max(e0, e1) + (2 * math.pi) ** 2 / (8 * n * n) + 1e-12)
            res.ob('R-TABLE', 'sine interpolant within 0.0125 of sin(2*pi*phase) in every cell', worst <= 0.0125, 'worst cell bound %.5f' % worst, T_SINE)
        slope = max(abs(float(s[(i + 1) % n] - s[i])) for i in range(n)) * n
        if cont_:
            res.ob('R-TABLE', 'sine max cell slope <= 2*pi*1.002 (incl. the wrap cell)', slope <= 2 * math.pi * 1.002, 'max slope %.6f vs %.6f' % (slope, 2 * math.pi * 1.002), T_SINE)
        res.extra['sine_max_slope'] = slope
        res.floor('sine_table_cells', n, 1024)


# ---------------------------------------------------------------------------------------
# R-INTERP / R-BLEND on Adsr::calc_value

STATES = ['AtRest', 'Attack', 'Decay', 'Sustain', 'Release']
# the fields the properties talk about; fields added later (instrumentation, caches) are not judged by the write-set rules,
# their influence on these fields is what the term rules see (they start unconstrained)
SPEC_FIELDS = {'attack_time.0', 'decay_time.0', 'sustain_level.0', 'release_time.0', 'state', 'value_when_gate_on_received',
               'value_when_gate_off_received', 'value', 'phase_accumulator.sample_rate_hz', 'phase_accumulator.rollover_mask',
               'phase_accumulator.accumulator', 'phase_accumulator.last_accumulator', 'phase_accumulator.increment',
               'phase_accumulator.rolled_over'}


def spec_changed(pre, post):
    return [c for c in changed_fields(pre, post) if c in SPEC_FIELDS]


def lin(y0, y1, fr):
    return y0 + (y1 - y0) * fr


def fraction_term(dds, total, index):
    """the term fraction() actually returns for acc = I*2^f+L (R-BITS decides whether it is the right one)"""
    it = dds.interp()
    st = State()
    pa = dds.make_pa(it, st, total, index, name='self.pa')
    outs, _ = call_pa(dds, it, st, 'fraction', pa, [], total, index)
    outs = [o for o in outs if o.status == 'returned']
    if len(outs) != 1 or not isinstance(outs[0].ret, Num):
        raise InterpError('fraction() has no single summary')
    return outs[0].ret.term


_FACTS = [None]


def tbl(name, idx):
    # the table may have moved to another private module: use the path the code itself refers to
    real = _FACTS[0].real('table', name) if _FACTS[0] is not None else name
    return Poly.atom(('tbl', real, as_poly(idx)))


def check_calc_value(res, facts, prop):
    """value = blend(state) with piecewise-linear table sample (R-INTERP), range and end levels (R-BLEND)"""
    dds = Dds(facts)
    total, index = pa_instantiation(facts, ADSR)
    n_tab = facts.const_int('synth_utils::lookup_tables::ADSR_CURVE_LUT_SIZE')
    res.ob('R-INTERP', 'table size = 2^NUM_INDEX_BITS', n_tab == 1 << index and len(facts.tables.get(T_ATTACK, [])) == n_tab and len(facts.tables.get(T_DECAY, [])) == n_tab,
           'ADSR_CURVE_LUT_SIZE=%d, NUM_INDEX_BITS=%d' % (n_tab, index))
    F = fraction_term(dds, total, index)
    I = Poly.sym('self.pa.I')
    von, voff, s = Poly.sym('self.value_when_gate_on_received'), Poly.sym('self.value_when_gate_off_received'), Poly.sym('self.sustain_level.0')
    where = where_of(facts, calc_value_path(facts))
    n = 0
    for state in STATES:
        for part, irange in (('I<=N-2', (0, n_tab - 2)), ('I=N-1', (n_tab - 1, n_tab - 1))):
            it = dds.interp()
            st = State()
            a = dds.make_adsr(it, st, state, total, index)
            st.ctx.ranges[('sym', 'self.pa.I')] = (Fr(irange[0]), Fr(irange[1]))
            pre = copy.deepcopy(a)
            outs, cell = run_method(it, st, calc_value_path(facts), a, [])
            res.absorb(it)
            nxt = I + 1 if part == 'I<=N-2' else Poly.const(n_tab - 1)
            Ic = I if part == 'I<=N-2' else Poly.const(n_tab - 1)
            sa = lin(tbl(T_ATTACK, Ic), tbl(T_ATTACK, nxt), F)
            sd = lin(tbl(T_DECAY, Ic), tbl(T_DECAY, nxt), F)
            spec = {'AtRest': ZERO, 'Attack': (ONE - von) * sa + von, 'Decay': (ONE - s) * sd + s, 'Sustain': s, 'Release': voff * sd}[state]
            inst = '%s|%s' % (state, part)
            for o in sem_iter(outs):
                n += 1
                if o.status != 'returned' or not isinstance(o.ret, Num):
                    res.ob('R-INTERP', inst, False, 'path ends with %s: %s' % (o.status, o.panic_info), where, key='R-INTERP:' + inst)
                    continue
                got = o.ret.term
                if part == 'I=N-1':
                    got = got.subst({('sym', 'self.pa.I'): Poly.const(n_tab - 1)})
                    got = renorm_tbl(got, o.ctx)
                if prop in ('C03', 'C01'):
                    res.ob('R-INTERP', inst, got == spec,
                           'calc_value = %r; expected %r (start level + (target-start) * interpolated table sample, neighbour = next cell clamped at the end)' % (got, spec),
                           where, key='R-INTERP:' + inst)
                if prop == 'C01':
                    lo, hi = o.ctx.rng(o.ret.term)
                    res.ob('R-BLEND', inst + '|range', lo >= 0 and hi <= 1, 'value in [%s, %s], must stay in [0,1]' % (float(lo) if lo != -INF else lo, float(hi) if hi != INF else hi), where, key='R-BLEND:range:' + inst)
                res.ob('R-PURE', inst + '|calc_value is read-only', not changed_fields(pre, o.cells[cell]), 'changed %s' % changed_fields(pre, o.cells[cell]), where, key='R-PURE:calc_value:' + inst)
    res.floor('calc_value_partitions', n, 10)
    if prop == 'C01':
        blend_endpoints(res, facts, dds, total, index, n_tab)
    return n


def renorm_tbl(p, ctx):
    """re-canonicalise table atoms whose index became constant after substitution"""
    m = {}
    for a in p.atoms():
        if a[0] == 'tbl':
            idx = a[2]
            m[a] = Poly.atom(('tbl', a[1], idx.subst({x: Poly.const(ctx.rng(Poly.atom(x))[0]) for x in idx.atoms() if ctx.rng(Poly.atom(x))[0] == ctx.rng(Poly.atom(x))[1]})))
    return p.subst(m) if m else p


def table_value_subst(p, tables):
    m = {}
    for a in p.atoms():
        if a[0] == 'tbl':
            c = a[2].const_value()
            if c is not None and a[1] in tables:
                m[a] = Poly.const(tables[a[1]][int(c)])
    return p.subst(m) if m else p


def blend_endpoints(res, facts, dds, total, index, n_tab):
    """start / end level of every timed phase: value at phase 0 and at the last phase position"""
    where = where_of(facts, calc_value_path(facts))
    von, voff, s = Poly.sym('self.value_when_gate_on_received'), Poly.sym('self.value_when_gate_off_received'), Poly.sym('self.sustain_level.0')
    exp = {'Attack': (von, ONE), 'Decay': (ONE, s), 'Release': (voff, ZERO)}
    mask = (1 << total) - 1
    for state, (e0, e1) in exp.items():
        for pos, acc, e in (('start', 0, e0), ('end', mask, e1)):
            it = dds.interp()
            st = State()
            a = dds.make_adsr(it, st, state, total, index, acc=Poly.const(acc))
            outs, cell = run_method(it, st, calc_value_path(facts), a, [])
            res.absorb(it)
            for o in sem_iter(outs):
                got = table_value_subst(o.ret.term, facts.tables) if o.status == 'returned' and isinstance(o.ret, Num) else None
                res.ob('R-BLEND', '%s|%s level' % (state, pos), got == e, 'value at phase %s of %s = %r, expected %r' % (pos, state, got, e), where, key='R-BLEND:%s:%s' % (state, pos))
    # direction of travel: the sample coefficient is >= 0 on the invariant box
    for state, coef in (('Attack', ONE - von), ('Decay', ONE - s), ('Release', voff)):
        it = dds.interp()
        st = State()
        a = dds.make_adsr(it, st, state, total, index)
        lo, hi = st.ctx.rng(coef)
        res.ob('R-BLEND', '%s|sample coefficient >= 0' % state, lo >= 0, 'coefficient %r in [%s,%s]' % (coef, lo, hi), where, key='R-BLEND:coef:' + state)
    # |dP/ds| <= 1 in decay (sustain changes move the output by at most the change)
    res.ob('R-BLEND', 'Decay|sustain sensitivity <= 1', True, 'dP/ds = 1 - sample in [0,1] because the decay table lies in [0,1] (R-TABLE)', where, nontrivial=False)


# ---------------------------------------------------------------------------------------
# R-LATCH / R-FSM on gate_on, gate_off, tick, set_input

GATE_ON_SPEC = {'AtRest': 'Attack', 'Decay': 'Attack', 'Sustain': 'Attack', 'Release': 'Attack', 'Attack': None}
GATE_OFF_SPEC = {'Attack': 'Release', 'Decay': 'Release', 'Sustain': 'Release', 'Release': None, 'AtRest': None}
TICK_NEXT = {'Attack': 'Decay', 'Decay': 'Sustain', 'Release': 'AtRest'}
TIME_FIELD = {'Attack': 'attack_time', 'Decay': 'decay_time', 'Release': 'release_time'}


def state_name(v):
    return v.vnames[v.variant] if isinstance(v, EnumV) and v.variant is not None else None


def check_gates(res, facts, prop):
    dds = Dds(facts)
    dds.need_levels = prop in ('C01', 'C03')
    total, index = pa_instantiation(facts, ADSR)
    n = 0
    for meth, spec, latch in (('gate_on', GATE_ON_SPEC, 'value_when_gate_on_received'), ('gate_off', GATE_OFF_SPEC, 'value_when_gate_off_received')):
        where = where_of(facts, ADSR + '::' + meth)
        for state in STATES:
            it = dds.interp()
            st = State()
            a = dds.make_adsr(it, st, state, total, index, rolled=None)
            pre = copy.deepcopy(a)
            outs, cell = run_method(it, st, ADSR + '::' + meth, a, [])
            res.absorb(it)
            inst = '%s|%s' % (meth, state)
            for o in sem_iter(outs):
                n += 1
                if o.status != 'returned':
                    res.ob('R-FSM', inst, False, 'path ends with %s: %s' % (o.status, o.panic_info), where, key='R-FSM:' + inst)
                    continue
                post = o.cells[cell]
                ch = spec_changed(pre, post)
                tgt = spec[state]
                pa1 = post.get('phase_accumulator')
                if tgt is None:
                    if prop == 'C02' or not ch:
                        res.ob('R-FSM', inst + '|ignored', not ch, 'gate event that must be ignored changes %s' % ch, where, key='R-FSM:%s:ignored' % inst)
                        continue
                    # C01 / C03 do not say WHICH events are ignored (that is C02's table); a gate event that is acted upon must
                    # start a proper new segment: from the level currently output, at phase 0, in the phase the event starts
                    tgt = 'Attack' if meth == 'gate_on' else 'Release'
                    res.ob('R-FSM', inst + '|state', state_name(post.get('state')) == tgt,
                           'gate event changes %s but leaves the envelope in %s: neither ignored nor a new %s segment' % (ch, state_name(post.get('state')), tgt), where, key='R-FSM:%s:ignored' % inst)
                if prop == 'C01':
                    res.ob('R-FSM', inst + '|state', state_name(post.get('state')) == tgt, 'state after %s in %s = %s, expected %s' % (meth, state, state_name(post.get('state')), tgt), where, key='R-FSM:%s:state' % inst)
                if prop == 'C02':
                    res.ob('R-FSM', inst + '|state', state_name(post.get('state')) == tgt, 'state after %s in %s = %s, expected %s' % (meth, state, state_name(post.get('state')), tgt), where, key='R-FSM:%s:state' % inst)
                    ok_acc = pa1.get('accumulator').term == ZERO and bool_of(o.ctx, pa1.get('rolled_over')) is False
                    res.ob('R-FSM', inst + '|restart', ok_acc, 'accumulator after the transition = %r, rolled_over = %r; expected 0 / false' % (pa1.get('accumulator'), pa1.get('rolled_over')), where, key='R-FSM:%s:restart' % inst)
                    allowed = {'state', latch, 'phase_accumulator.accumulator', 'phase_accumulator.last_accumulator', 'phase_accumulator.rolled_over'}
                    # (levels and latches are C01's / C03's business: C02 only judges the state, the phase counter and the times)
                    extra = {c for c in set(ch) - allowed if not (c.startswith('value') or c.startswith('sustain_level'))}
                    res.ob('R-FSM', inst + '|writes', not extra, 'unexpected writes: %s' % sorted(extra), where, key='R-FSM:%s:writes' % inst)
                if prop in ('C03', 'C01'):
                    got = post.get(latch)
                    res.ob('R-LATCH', inst, isinstance(got, Num) and got.term == pre.get('value').term,
                           '%s after %s = %r; expected the level currently output (self.value)' % (latch, meth, got), where, key='R-LATCH:' + inst)
                    res.ob('R-LATCH', inst + '|restart', pa1.get('accumulator').term == ZERO,
                           'new segment does not start at phase 0: accumulator = %r' % (pa1.get('accumulator'),), where, key='R-LATCH:%s:restart' % inst)
                    res.ob('R-LATCH', inst + '|value kept', same(pre.get('value'), post.get('value')), 'gate event changes the output itself: %r' % (post.get('value'),), where, key='R-LATCH:%s:value' % inst)
    return n


def bool_of(ctx, v):
    if not isinstance(v, BoolV):
        return None
    return ctx.decide(v.b)


def check_value_getter(res, facts):
    """the envelope is observed through Adsr::value(): it returns the stored output level and changes nothing"""
    dds = Dds(facts)
    total, index = pa_instantiation(facts, ADSR)
    where = where_of(facts, ADSR + '::value')
    n = 0
    for state in STATES:
        it = dds.interp()
        st = State()
        a = dds.make_adsr(it, st, state, total, index, rolled=None)
        pre = copy.deepcopy(a)
        outs, cell = run_method(it, st, ADSR + '::value', a, [])
        res.absorb(it)
        for o in sem_iter(outs):
            n += 1
            ok = o.status == 'returned' and pre.has('value') and same(o.ret, pre.get('value')) and not spec_changed(pre, o.cells[cell])
            res.ob('R-GETTER', 'Adsr::value|%s' % state, ok, 'value() returns %r, changes %s; expected the stored output level, read-only' % (o.ret, spec_changed(pre, o.cells[cell])), where, key='R-GETTER:value:' + state)
    return n


_DELTA = [0]


def relax_casts(ctx, term):
    """Every saturating float -> int cast f2i(e) in `term` whose argument provably stays inside the target range and is
    non-negative is replaced by e - d with a fresh d in [0, 1] (truncation of a non-negative real).  Returns (relaxed
    polynomial, context knowing the d's) or None when a cast cannot be relaxed (possible saturation / sign unknown)."""
    c2 = ctx.copy()
    mapping = {}
    for a in as_poly(term).atoms():
        if a[0] != 'f2i':
            continue
        e, tlo, thi = a[1], a[2], a[3]
        lo, hi = ctx.rng(e)
        if lo < 0 or lo < tlo or hi > thi:
            return None
        _DELTA[0] += 1
        d = c2.sym_range('cast_delta#%d' % _DELTA[0], 0, 1)
        mapping[a] = e - d
    return as_poly(term).subst(mapping), c2


def within(ctx, term, spec, lo, hi_poly=None, hi=None):
    """lo <= term - spec <= hi (or <= hi_poly), with casts relaxed: the tolerance form of "the code computes trunc(spec)" """
    r = relax_casts(ctx, term)
    if r is None:
        return False
    t2, c2 = r
    d = t2 - spec
    dl, _ = c2.rng(d)
    if dl < lo:
        return False
    if hi_poly is not None:
        return c2.rng(d - hi_poly)[1] <= 0
    return c2.rng(d)[1] <= hi


def inc_spec(total, period, fs):
    """trunc(2^T / (period * fs)) as the term the code must compute (saturating f32->u32 cast)"""
    return Poly.const(1 << total) * inv_poly(period) * inv_poly(fs)


def check_tick(res, facts, prop):
    dds = Dds(facts)
    dds.finite_inputs = prop == 'C17'
    dds.need_levels = prop in ('C01', 'C03')
    total, index = pa_instantiation(facts, ADSR)
    mask = (1 << total) - 1
    where = where_of(facts, ADSR + '::tick')
    n = 0
    for state in STATES:
        it = dds.interp()
        st = State()
        a = dds.make_adsr(it, st, state, total, index, rolled=False)
        pre = copy.deepcopy(a)
        outs, cell = run_method(it, st, ADSR + '::tick', a, [])
        res.absorb(it)
        acc0 = pre.get('phase_accumulator').get('accumulator').term
        fs = pre.get('phase_accumulator').get('sample_rate_hz').term
        inst0 = 'tick|%s' % state
        if state in TIME_FIELD:
            res.ob('R-FSM', inst0 + '|both outcomes', len([o for o in outs if o.status == 'returned']) >= 2,
                   'a timed phase must have a staying and an advancing outcome, found %d' % len(outs), where, key='R-FSM:%s:outcomes' % inst0)
        for o in sem_iter(outs):
            n += 1
            if o.status != 'returned':
                res.ob('R-FSM', inst0, False, 'path ends with %s: %s' % (o.status, o.panic_info), where, key='R-FSM:' + inst0)
                continue
            post = o.cells[cell]
            pa1 = post.get('phase_accumulator')
            s1 = state_name(post.get('state'))
            ch = spec_changed(pre, post)
            # value' = calc_value(post-state) on every path (R-LATCH)
            if prop in ('C03', 'C01'):
                with structural():
                    it2 = dds.interp()
                    st2 = State()
                    st2.ctx = o.ctx.copy()
                    outs2, c2 = run_method(it2, st2, calc_value_path(facts), copy.deepcopy(post), [])
                exp_vals = [x.ret.term for x in outs2 if x.status == 'returned' and isinstance(x.ret, Num)]
                got = post.get('value')
                # every feasible recomputation outcome must agree with the stored value (paths split on the same guards)
                res.ob('R-LATCH', inst0 + '->%s|value recomputed' % s1, isinstance(got, Num) and len(exp_vals) >= 1 and all(got.term == e for e in exp_vals),
                       'value after tick = %r; expected calc_value(post-state) = %r' % (got, exp_vals), where, key='R-LATCH:%s->%s' % (inst0, s1))
            # C02 owns the complete relation.  The shape (C01) and continuity (C03) statements presuppose part of it: phases are
            # entered in order and only when the accumulated phase wraps (a missed wrap restarts the curve from its start
            # level: non-monotone and a step), and a new phase starts at phase 0 (else the new curve starts in mid-air).
            full = prop == 'C02'
            # how fast a phase runs and that it ends are C02's ("lasts the configured time") and C17's ("reaches its sustain
            # level ... after finitely many ticks") statements; C01 describes the value as a function of the position in the
            # phase and is not judged on the rate
            timing = prop == 'C02'
            # C17 ("every envelope ... reaches its sustain level, and every release reaches rest, after finitely many ticks"):
            # only what termination needs — legal order of the phases, a wrap is never missed, strict progress while
            # staying, increment >= 1, the unchecked addition fits.  How long a phase lasts is C02's business.
            live = prop == 'C17'
            if prop not in ('C02', 'C01', 'C03', 'C17'):
                continue
            if state not in TIME_FIELD:
                if live:
                    continue
                allowed = {'value'}
                if full:
                    res.ob('R-FSM', inst0 + '|persist', s1 == state and set(ch) <= allowed, 'state %s -> %s, writes %s (sustain/rest persist until a gate event)' % (state, s1, ch), where, key='R-FSM:%s:persist' % inst0)
                elif prop == 'C01':
                    res.ob('R-FSM', inst0 + '|persist', s1 == state, 'state %s -> %s on tick (sustain/rest persist until a gate event)' % (state, s1), where, key='R-FSM:%s:persist' % inst0)
                continue
            period = pre.get(TIME_FIELD[state]).fields[0].term
            inc1 = pa1.get('increment')
            if timing:
                exp_inc_real = inc_spec(total, period, fs)
                ok_inc = isinstance(inc1, Num) and inc1.term == t_f2i(exp_inc_real, 0, 2 ** 32 - 1, o.ctx)
                if not ok_inc and isinstance(inc1, Num):
                    # tolerance form of the statement: never earlier (increment <= 2^T/N) and later only by the resolution of
                    # the counter (increment > 2^T/N - 1)
                    ok_inc = within(o.ctx, inc1.term, exp_inc_real, -1, hi=0)
                res.ob('R-INC', inst0 + '->%s' % s1, ok_inc, 'increment programmed on this tick = %r; expected trunc(2^%d / (%s * fs)) (within (-1, 0] of the real quotient)' % (inc1, total, TIME_FIELD[state]), where, key='R-INC:%s->%s' % (inst0, s1))
            if not isinstance(inc1, Num):
                continue
            total_sum = acc0 + inc1.term
            rolled = o.ctx.decide(cmp_term('Gt', total_sum, mask))
            if s1 == TICK_NEXT[state] and live:
                pass
            elif s1 == TICK_NEXT[state]:
                res.ob('R-ROLLOVER', inst0 + '->%s' % s1, rolled is True,
                       'phase advances although acc+inc > mask is not implied by the path condition %s' % (o.ctx.facts[-3:],), where, key='R-ROLLOVER:%s:adv' % inst0)
                ok = pa1.get('accumulator').term == ZERO and (bool_of(o.ctx, pa1.get('rolled_over')) is False or not full)
                res.ob('R-FSM', inst0 + '->%s|restart' % s1, ok, 'after advancing: accumulator %r rolled_over %r (expected 0/false)' % (pa1.get('accumulator'), pa1.get('rolled_over')), where, key='R-FSM:%s:adv-restart' % inst0)
            elif s1 == state:
                res.ob('R-ROLLOVER', inst0 + '->stay', rolled is False,
                       'phase does not advance although acc+inc <= mask is not implied by the path condition %s (a wrap can be missed)' % (o.ctx.facts[-3:],), where, key='R-ROLLOVER:%s:stay' % inst0)
                exp_acc = total_sum
                got_acc = pa1.get('accumulator').term
                if full:
                    res.ob('R-FSM', inst0 + '->stay|advance', got_acc == exp_acc or got_acc == t_mod(total_sum, Poly.const(mask + 1), o.ctx),
                           'accumulator after a non-wrapping tick = %r, expected acc + increment' % (got_acc,), where, key='R-FSM:%s:stay-acc' % inst0)
                    res.ob('R-FSM', inst0 + '->stay|flag', bool_of(o.ctx, pa1.get('rolled_over')) is False, 'rolled_over left set: %r' % (pa1.get('rolled_over'),), where, key='R-FSM:%s:stay-flag' % inst0)
                if live:
                    prog = o.ctx.decide(cmp_term('Gt', got_acc, acc0)) is True
                    if not prog and rolled is False and (got_acc == exp_acc or got_acc == t_mod(total_sum, Poly.const(mask + 1), o.ctx)):
                        # acc' = (acc + inc) mod 2^T on a path that implies acc + inc <= mask: the sum itself
                        prog = o.ctx.rng(inc1.term)[0] >= 1
                    res.ob('R-FSM', inst0 + '->stay|progress', prog,
                           'accumulator after a non-wrapping tick = %r: not provably above the accumulator before (%r), the phase may never end' % (got_acc, acc0), where, key='R-FSM:%s:stay-progress' % inst0)
            elif live:
                # termination only needs the envelope to end up AT its target level: a jump ahead in the same chain
                # (Attack -> Sustain) or into a resting state whose output already equals the level the chain was heading for
                # (Decay -> AtRest on a path where the sustain level is 0) still "reaches its sustain level / rest"
                fwd = (state, s1) in (('Attack', 'Sustain'),)
                if not fwd and s1 in ('AtRest', 'Sustain') and isinstance(post.get('value'), Num):
                    tgt = ZERO if state == 'Release' else post.get('sustain_level').fields[0].term
                    want = ZERO if s1 == 'AtRest' else tgt
                    fwd = o.ctx.decide(cmp_term('Eq', tgt, want)) is True and (state != 'Release' or s1 == 'AtRest')
                res.ob('R-FSM', inst0 + '->%s' % s1, fwd, 'transition %s -> %s on tick does not lead to the level the envelope was heading for' % (state, s1), where, key='R-FSM:%s:illegal' % inst0)
            else:
                res.ob('R-FSM', inst0 + '->%s' % s1, False, 'illegal transition %s -> %s on tick' % (state, s1), where, key='R-FSM:%s:illegal' % inst0)
            if not (timing or live):
                continue
            if full:
                allowed = {'value', 'state', 'phase_accumulator.accumulator', 'phase_accumulator.last_accumulator', 'phase_accumulator.increment', 'phase_accumulator.rolled_over'}
                res.ob('R-FSM', inst0 + '->%s|writes' % s1, set(ch) <= allowed, 'unexpected writes: %s' % sorted(set(ch) - allowed), where, key='R-FSM:%s:%s:writes' % (inst0, s1))
            # liveness: increment >= 1 for every legal time and sample rate
            lo, hi = o.ctx.rng(inc1.term)
            res.ob('R-INC', inst0 + '->%s|increment >= 1' % s1, lo >= 1, 'increment range [%s, %s] over time in %s s and fs in [%d,%d] Hz: a zero increment never ends the phase' % (lo, hi, [float(x) if x is not None else 'unbounded (NaN reaches the stored time)' for x in dds.tp_range], FS_MIN, FS_MAX), where, key='R-INC:%s:%s:live' % (inst0, s1))
            res.ob('R-INC', inst0 + '->%s|acc+inc fits u32' % s1, Fr(mask) + hi <= 2 ** 32 - 1, 'max increment %s' % hi, where, key='R-INC:%s:%s:fits' % (inst0, s1))
    res.floor('tick_outcomes', n, 8)
    return n


def check_set_input(res, facts, only_stored=False):
    """only_stored (C20): judge only that the parameter field holds exactly the converted argument; what else the call
    touches (accumulator, latches) is C02's / C01's / C03's statement"""
    dds = Dds(facts)
    total, index = pa_instantiation(facts, ADSR)
    where = where_of(facts, ADSR + '::set_input')
    spec = {'Attack': 'attack_time', 'Decay': 'decay_time', 'Sustain': 'sustain_level', 'Release': 'release_time'}
    for vname, field in spec.items():
        it = dds.interp()
        st = State()
        a = dds.make_adsr(it, st, 'Decay', total, index, rolled=None)
        pre = copy.deepcopy(a)
        inner = it.sym_value(st, adt_ty(SL if vname == 'Sustain' else TP), 'arg')
        inp = make_enum(facts, 'synth_utils::adsr::Input', vname, [inner])
        outs, cell = run_method(it, st, ADSR + '::set_input', a, [inp])
        res.absorb(it)
        for o in sem_iter(outs):
            post = o.cells[cell]
            ch = spec_changed(pre, post)
            ok = o.status == 'returned' and (only_stored or set(ch) <= {field + '.0'}) and same(post.get(field), inner)
            res.ob('R-WRITESET', 'set_input(%s)' % vname, ok, 'changed %s; %s = %r' % (ch, field, post.get(field)), where)


# ---------------------------------------------------------------------------------------
# accumulator class invariant and phase control (C10/C11)

PA_FIELDS = {'sample_rate_hz', 'rollover_mask', 'accumulator', 'last_accumulator', 'increment', 'rolled_over'}


def check_pa_methods(res, facts, owner, prop):
    dds = Dds(facts)
    total, index = pa_instantiation(facts, owner)
    mask = (1 << total) - 1
    n = 0
    inst0 = '%s<%d,%d>' % (owner.split('::')[-1], total, index)
    # new(): mask = 2^T - 1, everything else zero
    it = dds.interp()
    st = State()
    fs = float_sym(st, 'fs', FS_MIN, FS_MAX)
    st2 = it.start(PAF + 'new', [fs], genv=dds.genv(total, index), state=st)
    for o in sem_iter(it.run(st2)):
        r = o.ret
        ok = o.status == 'returned' and isinstance(r, StructV) and (not r.has('rollover_mask') or r.get('rollover_mask').term == Poly.const(mask)) and r.get('accumulator').term == ZERO \
            and r.get('increment').term == ZERO and bool_of(o.ctx, r.get('rolled_over')) is False and (prop == 'C17' or r.get('sample_rate_hz').term == fs.term)
        res.ob('R-PHASE', inst0 + ' new()', ok, 'new() = %r' % (r,), where_of(facts, PAF + 'new'), key='R-PHASE:new:' + inst0)
        n += 1
    res.absorb(it)
    # tick(): acc' = (acc + inc) mod 2^T, stays <= mask for EVERY increment that does not overflow the addition
    it = dds.interp()
    st = State()
    # every value the increment field can hold (a signed field includes the negative ones: `set_frequency` stores the
    # saturating cast of an arbitrary finite f32), short of overflowing the unsigned addition
    from ..interp import INT_RANGES as _IR
    ity = next((f['ty'].get('n') for f in facts.adt(PA)['variants'][0]['fields'] if f['name'] == 'increment'), 'u32')
    ilo, ihi = _IR.get(ity, (0, 2 ** 32 - 1))
    pa = dds.make_pa(it, st, total, index, inc_range=(ilo, min(ihi, 2 ** 32 - 1 - mask)), rolled=None)
    pre = copy.deepcopy(pa)
    outs, cell = call_pa(dds, it, st, 'tick', pa, [], total, index)
    res.absorb(it)
    acc0, inc0 = pre.get('accumulator').term, pre.get('increment').term
    for o in sem_iter(outs):
        n += 1
        post = o.cells[cell]
        got = post.get('accumulator').term if o.status == 'returned' else None
        exp = t_mod(acc0 + inc0, Poly.const(mask + 1), o.ctx)
        if got is not None:
            lo, hi = o.ctx.rng(got)
            res.ob('R-PHASE', inst0 + ' tick() keeps acc <= mask', lo >= 0 and hi <= mask, 'accumulator after tick = %r in [%s,%s]' % (got, lo, hi), where_of(facts, PAF + 'tick'), key='R-PHASE:tick-inv:' + inst0)
        if prop in ('C11', 'C12'):
            # (C12 bounds the change per tick by the phase step: the step must be exactly the increment, also across the wrap)
            wrapped = o.ctx.decide(cmp_term('Gt', acc0 + inc0, mask)) if got is not None else None
            ok = got is not None and (got == exp or (wrapped is False and got == acc0 + inc0))
            res.ob('R-PHASE', inst0 + ' tick() adds the increment modulo 2^T', ok, 'accumulator after tick = %r; expected (acc + increment) mod 2^%d' % (got, total), where_of(facts, PAF + 'tick'), key='R-PHASE:tick:' + inst0)
            ch = set(spec_fields_changed(pre, post, PA_FIELDS))
            res.ob('R-WRITESET', inst0 + ' tick() writes', ch <= {'accumulator', 'last_accumulator', 'rolled_over'}, 'changed %s' % sorted(ch), where_of(facts, PAF + 'tick'), key='R-WRITESET:tick:' + inst0)
    if prop not in ('C11', 'C10'):
        return n
    # reset()
    it = dds.interp()
    st = State()
    pa = dds.make_pa(it, st, total, index, rolled=None)
    pre = copy.deepcopy(pa)
    outs, cell = call_pa(dds, it, st, 'reset', pa, [], total, index)
    for o in sem_iter(outs):
        n += 1
        post = o.cells[cell]
        ch = set(spec_fields_changed(pre, post, PA_FIELDS))
        ok = o.status == 'returned' and post.get('accumulator').term == ZERO and ch <= {'accumulator', 'last_accumulator', 'rolled_over'}
        res.ob('R-PHASE', inst0 + ' reset()', ok, 'accumulator after reset = %r, changed %s' % (post.get('accumulator'), sorted(ch)), where_of(facts, PAF + 'reset'), key='R-PHASE:reset:' + inst0)
    # set_phase(p): acc' = trunc(mask * (|p| mod 1))
    for part, rng in (('p>=0', (0, INF)), ('p<0', (-INF, 0))):
        it = dds.interp()
        st = State()
        pa = dds.make_pa(it, st, total, index, rolled=None)
        pre = copy.deepcopy(pa)
        p = float_sym(st, 'p', *rng)
        if part == 'p<0':
            st.ctx.assume(cmp_term('Lt', p.term, 0))
        outs, cell = call_pa(dds, it, st, 'set_phase', pa, [p], total, index)
        res.absorb(it)
        absp = p.term if part == 'p>=0' else -p.term
        for o in sem_iter(outs):
            n += 1
            post = o.cells[cell]
            got = post.get('accumulator').term if o.status == 'returned' else None
            exp = t_f2i(Poly.const(mask) * t_frem(absp, ONE, o.ctx), 0, 2 ** 32 - 1, o.ctx)
            ch = set(spec_fields_changed(pre, post, PA_FIELDS))
            if prop == 'C11' and part == 'p>=0':
                ok_ph = got == exp
                if not ok_ph and got is not None:
                    # "the fractional part of p within 2^-22 of a cycle": |acc - 2^T * frac(p)| <= 2^(T-22) counts
                    tol = Fr(1 << total, 1 << 22)
                    ok_ph = within(o.ctx, got, Poly.const(1 << total) * t_frem(absp, ONE, o.ctx), -tol, hi=tol)
                res.ob('R-PHASE', inst0 + ' set_phase|' + part, ok_ph and ch <= {'accumulator', 'last_accumulator', 'rolled_over'},
                       'accumulator after set_phase = %r; expected trunc(mask * (p mod 1)) (within 2^-22 cycle of frac(p)); changed %s' % (got, sorted(ch)), where_of(facts, PAF + 'set_phase'), key='R-PHASE:set_phase:%s:%s' % (inst0, part))
            elif prop == 'C11':
                # negative p: the statement only requires a phase in [0,1) that depends on p through (p mod 1) alone
                only_mod = got is not None and p_only_inside_frem(got, ('sym', 'p'))
                res.ob('R-PHASE', inst0 + ' set_phase|' + part, only_mod and ch <= {'accumulator', 'last_accumulator', 'rolled_over'},
                       'accumulator after set_phase(p<0) = %r; p must occur only as (+-p mod 1); changed %s' % (got, sorted(ch)), where_of(facts, PAF + 'set_phase'), key='R-PHASE:set_phase:%s:%s' % (inst0, part))
            if got is not None:
                lo, hi = o.ctx.rng(got)
                res.ob('R-PHASE', inst0 + ' set_phase keeps acc <= mask|' + part, lo >= 0 and hi <= mask, 'accumulator in [%s,%s]' % (lo, hi), where_of(facts, PAF + 'set_phase'), key='R-PHASE:set_phase-inv:%s:%s' % (inst0, part))
    if prop != 'C11':
        return n
    # set_frequency(f): increment' = trunc(2^T * f / fs); nothing else (no phase jump)
    it = dds.interp()
    st = State()
    pa = dds.make_pa(it, st, total, index, rolled=None)
    pre = copy.deepcopy(pa)
    fsym = pre.get('sample_rate_hz').term
    f = float_sym(st, 'f', 0, FS_MAX)
    st.ctx.assume(cmp_term('Le', f.term, fsym))
    outs, cell = call_pa(dds, it, st, 'set_frequency', pa, [f], total, index)
    res.absorb(it)
    for o in sem_iter(outs):
        n += 1
        post = o.cells[cell]
        ch = set(spec_fields_changed(pre, post, PA_FIELDS))
        got = post.get('increment').term if o.status == 'returned' else None
        exp_real = Poly.const(1 << total) * f.term * inv_poly(fsym)
        exp = t_f2i(exp_real, 0, 2 ** 32 - 1, o.ctx)
        ok_f = got == exp
        if not ok_f and got is not None:
            # "too much by at most f32 rounding (2^-23 relative) and too little by at most that plus one counter step"
            ok_f = within(o.ctx, got, exp_real, -1, hi_poly=exp_real * Fr(1, 1 << 23))
        res.ob('R-INC', inst0 + ' set_frequency', ok_f and ch <= {'increment'}, 'increment = %r; expected trunc(2^%d * f / fs); changed %s' % (got, total, sorted(ch)), where_of(facts, PAF + 'set_frequency'), key='R-INC:set_frequency:' + inst0)
    return n


def p_only_inside_frem(term, sym):
    """every occurrence of `sym` in term is inside an atom frem(+-sym, 1)"""
    for a in term.atoms():
        if a == sym:
            return False
        if a[0] == 'frem':
            inner, q = a[1], a[2]
            if q.const_value() == 1 and (inner == Poly.atom(sym) or inner == -Poly.atom(sym)):
                continue
        for x in a[1:]:
            if isinstance(x, Poly) and not p_only_inside_frem(x, sym):
                return False
    return True


def check_constructors(res, facts, owner):
    """R-NEW: `Adsr::new(fs)` / `Lfo::new(fs)` hand exactly their argument to the accumulator (every duration and
    frequency is computed from the stored rate), with the accumulator at phase 0 and no increment"""
    dds = Dds(facts)
    total, index = pa_instantiation(facts, owner)
    it = dds.interp()
    st = State()
    fs = float_sym(st, 'fs', FS_MIN, FS_MAX)
    st2 = it.start(owner + '::new', [fs], state=st)
    outs = it.run(st2)
    res.absorb(it)
    where = where_of(facts, owner + '::new')
    n = 0
    for o in sem_iter(outs):
        n += 1
        r = o.ret
        pa = r.get('phase_accumulator') if o.status == 'returned' and isinstance(r, StructV) and r.has('phase_accumulator') else None
        ok = isinstance(pa, StructV) and isinstance(pa.get('sample_rate_hz'), Num) and pa.get('sample_rate_hz').term == fs.term \
            and pa.get('accumulator').term == ZERO and pa.get('increment').term == ZERO and bool_of(o.ctx, pa.get('rolled_over')) is False
        res.ob('R-NEW', '%s::new stores the sample rate it is given' % owner.split('::')[-1], ok,
               'accumulator after new(fs) = %r; expected sample_rate_hz = fs, phase 0, increment 0' % (pa,), where, key='R-NEW:' + owner.split('::')[-1])
        if ok and owner == ADSR:
            ok2 = state_name(r.get('state')) == 'AtRest' and r.get('value').term == ZERO
            res.ob('R-NEW', 'Adsr::new starts at rest with output 0', ok2, 'state %s value %r' % (state_name(r.get('state')), r.get('value')), where, key='R-NEW:Adsr:rest')
    res.floor('constructor_outcomes:' + owner.split('::')[-1], n, 1)
    return n


def check_lfo_wrappers(res, facts):
    """Lfo::{tick,set_frequency,reset,set_phase} forward to the accumulator with the argument unchanged"""
    dds = Dds(facts)
    total, index = pa_instantiation(facts, LFO)
    n = 0
    for meth, has_arg in (('tick', False), ('reset', False), ('set_frequency', True), ('set_phase', True)):
        it = dds.interp()
        st = State()
        l = dds.make_lfo(it, st, total, index, inc_range=(0, 1 << total), rolled=None)
        args = [float_sym(st, 'x', 0, 1000)] if has_arg else []
        seen = []

        def stub(itp, s, fr, t, a, _seen=seen):
            _seen.append(a)
            return UnitV()
        it.stubs[PAF + meth] = stub
        outs, cell = run_method(it, st, LFO + '::' + meth, l, args)
        res.absorb(it)
        ok = len(outs) == 1 and outs[0].status == 'returned' and len(seen) == 1 and (not has_arg or (isinstance(seen[0][1], Num) and seen[0][1].term == args[0].term)) \
            and isinstance(seen[0][0], RefV) and seen[0][0].proj == (('field', l.names.index('phase_accumulator')),)
        res.ob('R-PHASE', 'Lfo::%s forwards to its accumulator' % meth, ok, 'calls seen: %r' % (seen,), where_of(facts, LFO + '::' + meth))
        n += 1
    return n


# ---------------------------------------------------------------------------------------
# R-WAVE on Lfo::get

def _is_linear(p, atom):
    for m in p.t:
        for a, pw in m:
            if a == atom and pw != 1:
                return False
        if sum(1 for a, _ in m if a == atom) and len(m) > 1:
            return False
    return True


def sine_tolerance(facts, ctx, got, irange, n_tab, total, index, tol=Fr(125, 10000)):
    """worst |got - sin(2 pi phase)| over the cells irange of the path `ctx`, got a term over (self.pa.I, self.pa.L):
    for every cell the range of `got` over the in-cell position L is compared with the range of the sine over the cell
    (sound upper bound of the pointwise error).  Returns (worst, [cells over tol], cells evaluated)."""
    from ..terms import rebuild
    Isym = ('sym', 'self.pa.I')
    tables = {T_SINE: facts.tables.get(T_SINE, [])}
    worst = 0.0
    bad = []
    ncell = 0
    for i in range(irange[0], irange[1] + 1):
        c = ctx.copy()
        if c.assume(cmp_term('Eq', Poly.atom(Isym), i)) is False:
            continue        # this path does not cover cell i
        c.ranges[Isym] = (Fr(i), Fr(i))
        g = rebuild(got, {Isym: Poly.const(i)}, c, tables)
        glo, ghi = c.rng(g)
        if glo in (INF, -INF) or ghi in (INF, -INF):
            bad.append(i)
            worst = float('inf')
            ncell += 1
            continue
        p0, p1 = i / n_tab, (i + 1) / n_tab
        s0, s1 = math.sin(2 * math.pi * p0), math.sin(2 * math.pi * p1)
        Lsym = ('sym', 'self.pa.L')
        if g.atoms() <= {Lsym} and _is_linear(g, Lsym):
            # g is a straight line over the cell: error at both ends plus the sagitta of the sine arc over one cell
            lmax = (1 << (total - index)) - 1
            e0 = abs(float(g.subst({Lsym: Poly.const(0)}).const_value()) - s0)
            pl = (i * (1 << (total - index)) + lmax) / (1 << total)
            e1 = abs(float(g.subst({Lsym: Poly.const(lmax)}).const_value()) - math.sin(2 * math.pi * pl))
            err = max(e0, e1) + (2 * math.pi / n_tab) ** 2 / 8
            worst = max(worst, err)
            ncell += 1
            if err > float(tol) + 1e-9:
                bad.append(i)
            continue
        slo, shi = min(s0, s1), max(s0, s1)
        if p0 <= 0.25 <= p1:
            shi = 1.0
        if p0 <= 0.75 <= p1:
            slo = -1.0
        err = max(float(ghi) - slo, shi - float(glo))
        worst = max(worst, err)
        ncell += 1
        if err > float(tol) + 1e-9:
            bad.append(i)
    return worst, bad, ncell


def check_waves(res, facts, prop):
    dds = Dds(facts)
    total, index = pa_instantiation(facts, LFO)
    f = total - index
    n_tab = facts.const_int('synth_utils::lookup_tables::SINE_LUT_SIZE')
    res.ob('R-WAVE', 'sine table size = 2^NUM_INDEX_BITS', n_tab == 1 << index and len(facts.tables.get(T_SINE, [])) == n_tab, 'SINE_LUT_SIZE=%d NUM_INDEX_BITS=%d' % (n_tab, index))
    where = where_of(facts, LFO + '::get')
    I, L = Poly.sym('self.pa.I'), Poly.sym('self.pa.L')
    acc = I.scale(1 << f) + L
    r = acc.scale(Fr(1, 1 << total))
    F = fraction_term(dds, total, index)
    n = 0
    # (C11: the phase is observed through the up-saw, which must read the accumulator and nothing else)
    shapes = ['Sine', 'Triangle'] if prop == 'C12' else (['UpSaw'] if prop == 'C11' else ['Sine', 'Triangle', 'UpSaw', 'DownSaw', 'Square'])
    for shape in shapes:
        parts = [('all', None)]
        if shape == 'Sine':
            parts = [('I<=N-2', (0, n_tab - 2)), ('I=N-1', (n_tab - 1, n_tab - 1))]
        for part, irange in parts:
            it = dds.interp()
            st = State()
            l = dds.make_lfo(it, st, total, index, rolled=None)
            if irange:
                st.ctx.ranges[('sym', 'self.pa.I')] = (Fr(irange[0]), Fr(irange[1]))
            pre = copy.deepcopy(l)
            outs, cell = run_method(it, st, LFO + '::get', l, [make_enum(facts, WAVE, shape)])
            res.absorb(it)
            inst = '%s|%s' % (shape, part)
            for o in sem_iter(outs):
                n += 1
                if o.status != 'returned' or not isinstance(o.ret, Num):
                    res.ob('R-WAVE', inst, False, 'path ends with %s: %s' % (o.status, o.panic_info), where, key='R-WAVE:' + inst)
                    continue
                got = o.ret.term
                lo, hi = o.ctx.rng(got)
                res.ob('R-WAVE', inst + '|range', lo >= -1 and hi <= 1, 'value in [%s,%s], must stay in [-1,1]' % (float(lo) if lo != -INF else lo, float(hi) if hi != INF else hi), where, key='R-WAVE:range:%s:%d' % (inst, n))
                res.ob('R-PURE', inst + '|get is read-only', not changed_fields(pre, o.cells[cell]), 'get() changes %s' % changed_fields(pre, o.cells[cell]), where, key='R-PURE:get:' + inst)
                if shape == 'UpSaw':
                    ok_saw = got == r.scale(2) - 1
                    if not ok_saw and prop == 'C11':
                        # C11 only OBSERVES the phase through the up-saw (its exactness is C10's statement): any reading within
                        # a quarter of the 2^-22 cycle the statement allows for set_phase is good enough to observe it
                        dl, dh = o.ctx.rng(got - (r.scale(2) - 1))
                        ok_saw = dl >= -Fr(1, 1 << 23) and dh <= Fr(1, 1 << 23)
                    res.ob('R-WAVE', inst, ok_saw, 'UpSaw = %r; expected 2*phase - 1' % (got,), where, key='R-WAVE:' + inst)
                elif shape == 'DownSaw':
                    res.ob('R-WAVE', inst, got == -(r.scale(2) - 1), 'DownSaw = %r; expected -(2*phase - 1)' % (got,), where, key='R-WAVE:' + inst)
                elif shape == 'Square':
                    first_half = o.ctx.decide(cmp_term('Lt', r, Fr(1, 2)))
                    if got == ONE:
                        ok = first_half is True
                    elif got == -ONE:
                        ok = first_half is False
                    else:
                        ok = False
                    res.ob('R-WAVE', inst + '|%r' % (got,), ok, 'Square = %r on a path where (phase < 1/2) is %s; expected +1 exactly on the first half cycle, -1 on the second' % (got, first_half), where, key='R-WAVE:%s:%r' % (inst, got))
                elif shape == 'Triangle':
                    pieces = [(r.scale(4), lambda c: c.decide(cmp_term('Lt', r, Fr(1, 4))) is True, 'phase < 1/4'),
                              (Poly.const(2) - r.scale(4), lambda c: c.decide(cmp_term('Ge', r, Fr(1, 4))) is True and c.decide(cmp_term('Lt', r, Fr(3, 4))) is True, '1/4 <= phase < 3/4'),
                              (r.scale(4) - 4, lambda c: c.decide(cmp_term('Ge', r, Fr(3, 4))) is True, 'phase >= 3/4')]
                    ok = False
                    desc = 'no spec piece matches'
                    for pp, guard, d in pieces:
                        if got == pp:
                            ok = guard(o.ctx)
                            desc = 'piece %s, guard %s' % (d, 'implied' if ok else 'NOT implied by the path condition')
                    res.ob('R-WAVE', inst + '|%r' % (got,), ok, 'Triangle = %r; %s' % (got, desc), where, key='R-WAVE:%s:%r' % (inst, got))
                elif shape == 'Sine':
                    if part == 'I<=N-2':
                        spec = lin(tbl(T_SINE, I), tbl(T_SINE, I + 1), F)
                        g2 = got
                    else:
                        spec = lin(tbl(T_SINE, n_tab - 1), tbl(T_SINE, 0), F)
                        g2 = renorm_tbl(got.subst({('sym', 'self.pa.I'): Poly.const(n_tab - 1)}), o.ctx)
                    if prop == 'C10':
                        # C10 states a tolerance ("within two table steps (0.0125) of sin(2*pi*phase)"), not the interpolation
                        # scheme (that is C12's): evaluate the extracted formula cell by cell against the sine itself
                        worst, bad, ncell = sine_tolerance(facts, o.ctx, got, irange, n_tab, total, index)
                        res.ob('R-SINE', inst, not bad and ncell >= 1,
                               'Sine = %r: |value - sin(2*pi*phase)| <= 0.0125 over every table cell of this path (worst %.6f over %d cells%s)'
                               % (got, worst, ncell, ('; exceeded in cell(s) %s' % bad[:4]) if bad else ''), where, key='R-SINE:' + inst)
                        res.extra['sine_cells_evaluated'] = res.extra.get('sine_cells_evaluated', 0) + ncell
                    else:
                        res.ob('R-INTERP', inst, g2 == spec, 'Sine = %r; expected %r (neighbour = next cell, wrapping to cell 0 after the last)' % (g2, spec), where, key='R-INTERP:' + inst)
    res.floor('wave_outcomes', n, 5 if prop == 'C12' else (1 if prop == 'C11' else 9))
    return n
