"""Rules for the quantizer: C07 (mask invariant, R-PITCHCLASS, search results enabled), C08 (R-SEARCHORDER
and the structure of the nearest-note scan), C09 (R-HYST), C19 (R-RECORD).

The cached note is given as  note = 12*q + pc  so that "pitch class" is a term; the scale mask is a symbol in
[1, 4095] (class invariant, checked inductively over new/allow/forbid).  The search loop is analysed with a
rule-provided loop-head abstraction: the two loop-carried accumulators (best candidate, best distance) are
either still at their initial constants (A) or hold *some earlier candidate*  pc'*H + k'*O  with pc' enabled (B);
(A) u (B) is checked to be inductive over both back edges.
"""
import copy
from fractions import Fraction as Fr

from ..terms import (t_abs, Poly, B, INF, TRUE, FALSE, ZERO, ONE, NAN, bconst, bnot, cmp_term, as_poly, t_mod, t_idiv, t_min, t_max,
                     t_shr, t_bitand, t_shl, t_f2i)
from ..interp import (Interp, State, Num, BoolV, StructV, EnumV, TupleV, RefV, ContV, Opaque, UnitV, InterpError)
from ..models import _pushed_elems
from .common import *

Q = 'synth_utils::quantizer::Quantizer'
Q_FIELDS = {'cached_conversion', 'allowed'}
CONV = 'synth_utils::quantizer::Conversion'
NOTE = 'synth_utils::quantizer::Note'
FNN = Q + '::find_nearest_note'
from ..interp import INT_RANGES as INT_RANGES_


def note_invariant(it, lo=0, hi=11):
    def f(st, sv):
        a = sv.fields[0].term.as_single_atom()
        if a is not None:
            st.ctx.ranges[a] = (Fr(lo), Fr(hi))
            st.ctx.int_atoms.add(a)
    it.invariants[NOTE] = f


class Qz:
    def __init__(self, facts):
        self.facts = facts
        self.H = facts.const_int('synth_utils::quantizer::HALF_STEP_IN_MICROVOLTS')
        self.O = facts.const_int('synth_utils::quantizer::ONE_OCTAVE_IN_MICROVOLTS')
        self.MAX_OCT = facts.const_int('synth_utils::quantizer::MAX_OCTAVE')
        self.W = facts.const_float('synth_utils::quantizer::SEMITONE_WIDTH')
        self.HYST = facts.const_float('synth_utils::quantizer::HYSTERESIS')
        self.VMAX = facts.const_float('synth_utils::quantizer::V_MAX')

    def interp(self):
        it = Interp(self.facts)
        note_invariant(it)
        return it

    def quantizer(self, it, st, cached='consistent'):
        q = it.sym_value(st, adt_ty(Q), 'self')
        st.ctx.ranges[('sym', 'self.allowed')] = (Fr(1), Fr(4095))
        cc = q.get('cached_conversion')
        opt = isinstance(cc, EnumV) and cc.path.startswith('core::option::Option')
        if opt:
            # the previous conversion is held as `Option<Conversion>` (`None` = no conversion yet, instead of a sentinel record)
            if cached == 'fresh':
                it2 = Interp(self.facts)
                outs = [o for o in it2.run(it2.start(Q + '::new', [])) if o.status == 'returned' and isinstance(o.ret, StructV)]
                if len(outs) != 1:
                    raise InterpError('Quantizer::new has no single summary')
                q.set('cached_conversion', outs[0].ret.get('cached_conversion'))
                return q
            cc = it.sym_value(st, adt_ty(CONV), 'self.cached_conversion')
            q.set('cached_conversion', EnumV('core::option::Option', 1, {1: [cc]}, vnames=['None', 'Some'], targs=q.get('cached_conversion').targs))
        if cached == 'consistent':
            qq = st.ctx.sym_range('cached.q', 0, self.MAX_OCT, integer=True)
            pc = st.ctx.sym_range('cached.pc', 0, 11, integer=True)
            note = qq.scale(12) + pc
            cc.set('note_num', Num(note, 'u8'))
            cc.set('stairstep', Num(note.scale(Fr(1, 12)), 'f32'))
        elif cached == 'fresh':
            it2 = Interp(self.facts)
            s2 = it2.start(CONV + '::new', [])
            outs = it2.run(s2)
            if len(outs) != 1 or not isinstance(outs[0].ret, StructV):
                raise InterpError('Conversion::new has no single summary')
            q.set('cached_conversion', outs[0].ret)
        return q

    @staticmethod
    def cc_of(sv):
        """the record of the previous conversion held by a quantizer value; None when it is held as `Option::None`"""
        x = sv.get('cached_conversion')
        if isinstance(x, EnumV) and x.path.startswith('core::option::Option'):
            pl = x.payload.get(1) if x.variant == 1 else None
            return pl[0] if isinstance(pl, list) and pl and isinstance(pl[0], StructV) else None
        return x

    def enabled(self, allowed, pc, ctx):
        """the term the code's bit test normalises to: ((allowed >> pc) & 1) == 1"""
        return cmp_term('Eq', t_bitand(t_shr(allowed, pc, ctx), ONE, ctx), 1)


# ---------------------------------------------------------------------------------------
# C07 (a)(b): class invariant of the mask, Note newtype

def check_mask_invariant(res, facts):
    qz = Qz(facts)
    # Note::new / From<u8>: result in [0,11], identity on [0,11], 11 above (also C20)
    for path in (NOTE + '::new', '<synth_utils::quantizer::Note as core::convert::From<u8>>::from'):
        for part, (lo, hi) in (('n<=11', (0, 11)), ('n>11', (12, 255))):
            it = Interp(facts)
            st = State()
            n = int_sym(st, 'n', lo, hi)
            outs = it.run(it.start(path, [n], state=st))
            res.absorb(it)
            for o in sem_iter(outs):
                t = o.ret.fields[0].term if o.status == 'returned' and isinstance(o.ret, StructV) else None
                # C07 only needs every Note to be a pitch class 0..11 (WHICH one an out-of-range number becomes is C20's statement)
                tlo, thi = o.ctx.rng(t) if t is not None else (-INF, INF)
                res.ob('R-NEWTYPE', '%s|%s' % (path.split('::')[-2] + '::' + path.split('::')[-1], part), t is not None and tlo >= 0 and thi <= 11,
                       'Note(%r) for n in [%d,%d] lies in [%s,%s]; a Note must be a pitch class 0..11' % (t, lo, hi, tlo, thi), where_of(facts, path), key='R-NEWTYPE:%s:%s' % (path, part))
    newtype_sites(res, facts, NOTE, 0, 11)
    # new(): all twelve notes
    it = qz.interp()
    outs = it.run(it.start(Q + '::new', []))
    res.absorb(it)
    for o in sem_iter(outs):
        a = o.ret.get('allowed') if o.status == 'returned' and isinstance(o.ret, StructV) else None
        lo, hi = o.ctx.rng(a.term) if a is not None else (None, None)
        res.ob('R-MASK', 'new()', a is not None and lo >= 1 and hi <= 4095, 'allowed after new() = %r' % (a,), where_of(facts, Q + '::new'))
    # allow / forbid keep the mask in [1, 4095]
    for meth in ('allow', 'forbid'):
        for part, lr in (('len=0', (0, 0)), ('len>=1', (1, 2 ** 20))):
            it = qz.interp()
            st = State()
            q = qz.quantizer(it, st, cached=None)
            notes = it.sym_value(st, {'k': 'ref', 'mut': False, 'ty': {'k': 'slice', 'ty': adt_ty(NOTE)}}, 'notes')
            a = notes.len.as_single_atom()
            if lr[0] == lr[1]:
                notes.len = Poly.const(lr[0])
            else:
                st.ctx.ranges[a] = (Fr(lr[0]), Fr(lr[1]))
            pre = copy.deepcopy(q)
            outs, cell = run_method(it, st, Q + '::' + meth, q, [notes])
            res.absorb(it)
            for o in sem_iter(outs):
                inst = '%s|%s' % (meth, part)
                if o.status != 'returned':
                    res.ob('R-MASK', inst, False, 'path ends with %s: %s' % (o.status, o.panic_info), where_of(facts, Q + '::' + meth), key='R-MASK:' + inst)
                    continue
                post = o.cells[cell]
                al = post.get('allowed')
                lo, hi = o.ctx.rng(al.term)
                res.ob('R-MASK', inst, lo >= 1 and hi <= 4095, 'allowed after %s in [%s,%s]; must stay a non-empty 12-bit mask' % (meth, lo, hi), where_of(facts, Q + '::' + meth), key='R-MASK:' + inst)
                # (what a scale edit does to the cached conversion is C08's / C09's statement: check_scale_edits_keep_cache)
                if meth == 'forbid' and part == 'len>=1':
                    # on the rescue path the mask is exactly the last note of the argument
                    emptied = any(f.k[0] == 'cmp' and f.k[1] == '==' and 'after_for_each' in repr(f.k[2]) for f in o.ctx.facts)
                    if emptied:
                        last = Poly.sym("elem(('sym', 'notes'),len(notes) - 1).0")
                        exp = t_shl(ONE, last, o.ctx)
                        res.ob('R-MASK', inst + '|rescue keeps the LAST note of the argument', al.term == exp,
                               'allowed on the rescue path = %r; expected 1 << notes[len-1]' % (al.term,), where_of(facts, Q + '::forbid'), key='R-MASK:rescue')
    # is_allowed(note) reads the bit of the note
    it = qz.interp()
    st = State()
    q = qz.quantizer(it, st, cached=None)
    nt = it.sym_value(st, adt_ty(NOTE), 'note')
    pre = copy.deepcopy(q)
    outs, cell = run_method(it, st, Q + '::is_allowed', q, [nt])
    res.absorb(it)
    for o in sem_iter(outs):
        exp = qz.enabled(Poly.sym('self.allowed'), nt.fields[0].term, o.ctx)
        ok = o.status == 'returned' and isinstance(o.ret, BoolV) and (o.ret.b == exp or o.ctx.decide(exp) == o.ctx.decide(o.ret.b) is not None)
        res.ob('R-MASK', 'is_allowed', ok and not spec_fields_changed(pre, o.cells[cell], Q_FIELDS), 'is_allowed = %r; expected bit `note` of the mask' % (o.ret,), where_of(facts, Q + '::is_allowed'))


def check_search_history_free(res, facts):
    """C09: outside the hysteresis window the result is what a quantizer without history reports: on every
    non-early path of convert() the new note carries no symbol of the previous conversion, and no branch taken inside the
    search helpers (functions other than convert / is_allowed) depends on one"""
    qz = Qz(facts)
    where = where_of(facts, Q + '::convert')
    it = qz.interp()
    st = State()
    q = qz.quantizer(it, st, cached='consistent')
    v = float_sym(st, 'v', 0, qz.VMAX)
    run = SearchRun(qz, 'B', 'B')
    it.loop_hook = run.hook
    pre = copy.deepcopy(q)
    try:
        outs, cell = run_method(it, st, Q + '::convert', q, [v])
    except InterpError as e:
        res.ob('R-HYST', 'history-free search', False, 'analysis failed: %s' % e, where)
        return
    res.absorb(it)
    cc0 = Qz.cc_of(pre)
    n = 0
    own = {Q + '::convert', Q + '::is_allowed'}

    def is_cached(nm):
        return isinstance(nm, str) and (nm.startswith('cached.') or nm.startswith('self.cached_conversion'))

    def cached_syms(p, ctx=None):
        names = {a[1] for a in all_atoms(p) if a[0] == 'sym'}
        out_ = {nm for nm in names if is_cached(nm)}
        if ctx is not None:
            # results of unknown callees carry the symbols their arguments mentioned
            for nm in names:
                for pre, d in ctx.sym_deps.items():
                    if isinstance(nm, str) and nm.startswith(pre):
                        out_ |= {x for x in d if is_cached(x)}
        return sorted(out_)

    def fact_syms(f, ctx):
        acc = []
        k = f.k
        if k[0] == 'sym':
            for pre, d in ctx.sym_deps.items():
                if isinstance(k[1], str) and k[1].startswith(pre):
                    acc += [x for x in d if is_cached(x)]
        for x in k[1:]:
            if isinstance(x, Poly):
                acc += cached_syms(x, ctx)
            elif isinstance(x, B):
                acc += fact_syms(x, ctx)
        return sorted(set(acc))
    for o in sem_iter(outs):
        if o.status != 'returned' or not isinstance(o.ret, StructV):
            continue
        cc1 = Qz.cc_of(o.cells[cell])
        if cc0 is None or cc1 is None:
            res.ob('R-HYST', 'search outside the window is history-free', False, 'no record of the previous / this conversion in the quantizer: %r -> %r' % (cc0, cc1), where, key='R-HYST:no-record')
            continue
        with structural():
            early = same(cc0.get('note_num'), cc1.get('note_num')) and same(cc0.get('stairstep'), cc1.get('stairstep'))
        if early:
            continue
        n += 1
        note = cc1.get('note_num')
        bad = cached_syms(note.term, o.ctx) if isinstance(note, Num) else ['?']
        dep = []
        search_fns = _callees_closure(facts, run.fn_path) if run.fn_path else None
        for f, org in o.ctx.origins.items():
            if org in own or not org.lstrip('<').startswith('synth_utils::quantizer::'):
                continue
            if search_fns is not None and org not in search_fns:
                continue    # a guard evaluated before the search (the window test, wherever it was factored out to)
            stack = o.ctx.origin_stacks.get(f)
            if stack and search_fns is not None:
                # a helper shared by the guard and the search (`NoteState::from_bit`): what counts is on whose behalf it ran -
                # the first function on the call stack that is either the pitch-class guard or part of the search
                first = next((p_ for p_ in stack[1:] if p_ in own or p_ in search_fns), None)
                if first is not None and first in own:
                    continue
            cs = fact_syms(f, o.ctx)
            if cs:
                dep.append('%s in %s' % (cs, org.split('::')[-1]))
        res.ob('R-HYST', 'search outside the window is history-free (path %d)' % n, not bad and not dep,
               'new note depends on the previous conversion: value symbols %s; branches %s' % (bad, sorted(set(dep))[:4]), where, key='R-HYST:search-history-free:%d' % n)
    res.floor('history_free_paths', n, 4)


def _callees_closure(facts, root):
    """the function containing the scan and everything it calls inside the crate"""
    seen, stack = set(), [root]
    while stack:
        p = stack.pop()
        if p in seen:
            continue
        seen.add(p)
        f = facts.fns.get(p)
        if f is None:
            continue
        for b in f['blocks']:
            t = b['term']
            if t['k'] == 'call' and 'def' in t['callee']:
                for key in ('via_from', 'resolved'):
                    c = t['callee'].get(key)
                    if c and c['path'] in facts.fns and facts.fns[c['path']].get('crate') == 'synth_utils':
                        stack.append(c['path'])
    return seen


def check_forbid_rescue(res, facts):
    """forbid(notes) = allowed & !bits(notes), except that an emptied scale becomes exactly {last note of the argument};
    decided exactly for argument slices of length 1 and 2 with symbolic notes (the for_each is unrolled)"""
    from ..terms import t_bitand, t_shl
    qz = Qz(facts)
    where = where_of(facts, Q + '::forbid')
    for ln in (1, 2):
        it = qz.interp()
        st = State()
        q = qz.quantizer(it, st, cached=None)
        notes = it.sym_value(st, {'k': 'ref', 'mut': False, 'ty': {'k': 'slice', 'ty': adt_ty(NOTE)}}, 'notes')
        notes.len = Poly.const(ln)
        A = Poly.sym('self.allowed')
        outs, cell = run_method(it, st, Q + '::forbid', q, [notes])
        res.absorb(it)
        ns = [Poly.sym("elem(('sym', 'notes'),%d).0" % i) for i in range(ln)]
        for o in sem_iter(outs):
            inst = 'forbid|len=%d' % ln
            if o.status != 'returned':
                res.ob('R-MASK', inst, False, 'path ends with %s: %s' % (o.status, o.panic_info), where, key='R-MASK:rescue-path:%d' % ln)
                continue
            Bt = A
            for n_ in ns:
                Bt = t_bitand(Bt, Poly.const(65535) - t_shl(ONE, n_, o.ctx), o.ctx)
            emptied = o.ctx.decide(cmp_term('Eq', Bt, 0))
            got = o.cells[cell].get('allowed').term
            if emptied is True:
                exp = t_shl(ONE, ns[-1], o.ctx)
            elif emptied is False:
                exp = Bt
            else:
                exp = None
            res.ob('R-MASK', inst + '|result = cleared mask, or exactly the last note of the argument when that would be empty', exp is not None and got == exp,
                   'allowed after forbid = %r; expected %r (the path does not decide whether the cleared mask %r is empty: %s)' % (got, exp, Bt, emptied), where,
                   key='R-MASK:rescue:%d' % ln)


def check_scale_edits_keep_cache(res, facts):
    """C09: allow()/forbid() edit the scale only; the previous conversion (the hysteresis window) is left alone"""
    qz = Qz(facts)
    for meth in ('allow', 'forbid'):
        for part, lr in (('len=0', (0, 0)), ('len>=1', (1, 2 ** 20))):
            it = qz.interp()
            st = State()
            q = qz.quantizer(it, st, cached='consistent')
            notes = it.sym_value(st, {'k': 'ref', 'mut': False, 'ty': {'k': 'slice', 'ty': adt_ty(NOTE)}}, 'notes')
            if lr[0] == lr[1]:
                notes.len = Poly.const(lr[0])
            else:
                st.ctx.ranges[notes.len.as_single_atom()] = (Fr(lr[0]), Fr(lr[1]))
            pre = copy.deepcopy(q)
            outs, cell = run_method(it, st, Q + '::' + meth, q, [notes])
            res.absorb(it)
            for o in sem_iter(outs):
                ch = [c for c in spec_fields_changed(pre, o.cells[cell], Q_FIELDS) if c.startswith('cached_conversion')]
                res.ob('R-HYST', '%s|%s keeps the previous conversion' % (meth, part), o.status == 'returned' and not ch,
                       'scale edit changes %s: the hysteresis window of a note that is still allowed would be lost' % ch, where_of(facts, Q + '::' + meth), key='R-HYST:scale-edit:%s:%s' % (meth, part))


def newtype_sites(res, facts, path, lo, hi):
    """R-NEWTYPE: every construction site of the newtype inside the crate stores a value within the invariant
    (so the clamping constructor is the only way in)."""
    n = 0
    for fp, f in facts.fns.items():
        if f['crate'] != 'synth_utils' or f.get('derived'):
            continue
        for bi, b in enumerate(f['blocks']):
            for s in b['stmts']:
                if s['k'] == 'assign' and s['rv']['k'] == 'aggregate' and s['rv'].get('path') == path:
                    n += 1
    res.ob('R-NEWTYPE', 'construction sites of %s' % path.split('::')[-1], n >= 1, '%d aggregate sites' % n, key='R-NEWTYPE:sites:' + path, nontrivial=False)
    return n


# ---------------------------------------------------------------------------------------
# convert(): R-PITCHCLASS, R-HYST, R-RECORD

def run_convert(qz, cached, v_part, allowed_point=None):
    it = qz.interp()
    st = State()
    q = qz.quantizer(it, st, cached=cached)
    from ..terms import PINF_ATOM, NINF_ATOM
    if v_part == 'nan':
        v = Num(NAN, 'f32')
    elif v_part == '+inf':
        v = Num(Poly.atom(PINF_ATOM), 'f32')
    elif v_part == '-inf':
        v = Num(Poly.atom(NINF_ATOM), 'f32')
    else:
        v = float_sym(st, 'v', *v_part)
    calls = []

    def stub(itp, s, fr, t, args):
        n = int_sym(s, s.fresh_name('found'), 0, 12 * qz.MAX_OCT + 11)
        calls.append(args[1])
        s.notes.append(('fnn_arg', args[1].term if isinstance(args[1], Num) else None))
        return n
    if FNN in qz.facts.fns:
        it.stubs[FNN] = stub
    pre = copy.deepcopy(q)
    outs, cell = run_method(it, st, Q + '::convert', q, [v])
    return it, outs, cell, pre, v


def check_convert(res, facts, prop):
    qz = Qz(facts)
    where = where_of(facts, Q + '::convert')
    W, H = qz.W, qz.HYST
    if prop in ('C09', 'C19'):
      res.ob('R-HYST', 'constants', abs(W - Fr(1, 12)) < Fr(1, 10 ** 7) and abs(H - Fr(1, 120)) < Fr(1, 10 ** 7) and qz.VMAX == qz.MAX_OCT,
           'SEMITONE_WIDTH=%s HYSTERESIS=%s V_MAX=%s (expected 1/12, 1/120, MAX_OCTAVE)' % (float(W), float(H), float(qz.VMAX)))
    n = 0
    # C08 is stated for "a quantizer with no prior conversion": only the freshly constructed pre-state is its business
    for cached in (('fresh',) if prop == 'C08' else ('consistent', 'fresh')):
        FMAX = Fr(2 ** 128 - 2 ** 104)
        for vname, v_part in (('finite', (-FMAX, FMAX)), ('+inf', '+inf'), ('-inf', '-inf'), ('nan', 'nan')):
            try:
                it, outs, cell, pre, v = run_convert(qz, cached, v_part)
            except InterpError as e:
                res.ob('R-SUMMARY', 'convert|%s|%s' % (cached, vname), False, 'analysis failed: %s' % e, where)
                continue
            res.absorb(it)
            allowed = Poly.sym('self.allowed')
            cc0 = Qz.cc_of(pre)
            ss0 = cc0.get('stairstep').term if cc0 is not None else None
            for o in sem_iter(outs):
                n += 1
                inst = 'convert|%s|%s' % (cached, vname)
                if o.status != 'returned' or not isinstance(o.ret, StructV):
                    res.ob('R-SUMMARY', inst, False, 'path ends with %s: %s' % (o.status, o.panic_info), where, key='R-SUMMARY:' + inst)
                    continue
                post = o.cells[cell]
                cc1 = Qz.cc_of(post)
                if cc1 is None:
                    res.ob('R-RECORD', inst + '|the conversion is recorded', False, 'no record of this conversion in the quantizer afterwards: %r' % (post.get('cached_conversion'),), where, key='R-RECORD:none:' + inst)
                    continue
                fnn = [x for x in o.notes if x[0] == 'fnn_arg']
                has_stub = FNN in facts.fns
                if has_stub:
                    early = not fnn
                else:
                    # the private search helper was renamed/inlined: the hysteresis path is the one that keeps note and stairstep
                    with structural():
                        early = cc0 is not None and same(cc0.get('note_num'), cc1.get('note_num')) and same(cc0.get('stairstep'), cc1.get('stairstep'))
                ret = o.ret
                # the returned record is the cached record
                if prop == 'C19':
                    res.ob('R-RECORD', inst + '|returns the cached record', same(ret, cc1), 'returned %r, cached %r' % (ret, cc1), where, key='R-RECORD:ret:%s:%s' % (inst, early))
                if early:
                    if cached == 'fresh' and prop not in ('C09', 'C19'):
                        continue
                    if cached == 'fresh':
                        res.ob('R-HYST', inst + '|first conversion is history-free', False,
                               'the hysteresis early return is reachable from the freshly constructed quantizer (sentinel stairstep %r): it would report a conversion that never happened' % (ss0,), where, key='R-HYST:fresh-early')
                        continue
                    if vname in ('nan', '+inf', '-inf') and prop in ('C09', 'C19'):
                        res.ob('R-HYST', inst + '|NaN / infinite input never inside the window', False, 'early return taken for a %s input' % vname, where, key='R-HYST:nan-early')
                        continue
                    pc = Poly.sym('cached.pc')
                    en = o.ctx.decide(qz.enabled(allowed, pc, o.ctx))
                    if prop in ('C07', 'C09'):
                        res.ob('R-PITCHCLASS', inst + '|early return', en is True,
                               'the cached note is kept although "its pitch class (note mod 12) is allowed now" is not implied by the path condition %s' % (o.ctx.facts[:2],), where, key='R-PITCHCLASS:early')
                    if prop in ('C09', 'C19'):
                        lo_ok = o.ctx.decide(cmp_term('Gt', v.term, ss0 - H))
                        hi_ok = o.ctx.decide(cmp_term('Lt', v.term, ss0 + W + H))
                        if prop == 'C09':
                            res.ob('R-HYST', inst + '|early return only inside the window', lo_ok is True and hi_ok is True,
                                   'early return on a path where stairstep-H < v is %s and v < stairstep+W+H is %s' % (lo_ok, hi_ok), where, key='R-HYST:early-window')
                            ch = set(spec_fields_changed(pre, post, Q_FIELDS))
                            res.ob('R-HYST', inst + '|early return rewrites only the fraction', ch <= {'cached_conversion.fraction'}, 'changed %s' % sorted(ch), where, key='R-HYST:early-writes')
                        fr1 = cc1.get('fraction')
                        vcl = t_min(t_max(v.term, ZERO, o.ctx, 'fmax'), Poly.const(qz.VMAX), o.ctx, 'fmin')
                        res.ob('R-RECORD', inst + '|early fraction = v - stairstep (input or its clamped value)',
                               isinstance(fr1, Num) and (fr1.term == v.term - ss0 or fr1.term == vcl - ss0),
                               'fraction = %r; expected v - stairstep or clamp(v) - stairstep' % (fr1,), where, key='R-RECORD:early-fraction')
                        if prop == 'C19' and isinstance(fr1, Num):
                            lo, hi = o.ctx.rng(fr1.term)
                            res.ob('R-RECORD', inst + '|early fraction within [-0.1, 1.1] semitones', lo >= -H and hi <= W + H,
                                   'fraction in [%s,%s] V' % (float(lo) if lo != -INF else lo, float(hi) if hi != INF else hi), where, key='R-RECORD:early-range')
                else:
                    if cached == 'consistent' and vname == 'finite' and prop == 'C09':  # noqa
                        pc = Poly.sym('cached.pc')
                        en = o.ctx.decide(qz.enabled(allowed, pc, o.ctx))
                        lo_ok = o.ctx.decide(cmp_term('Gt', v.term, ss0 - H))
                        hi_ok = o.ctx.decide(cmp_term('Lt', v.term, ss0 + W + H))
                        res.ob('R-HYST', inst + '|full search only outside the window', en is False or lo_ok is False or hi_ok is False,
                               'the note is re-searched on a path where none of (pitch class forbidden, v <= stairstep-H, v >= stairstep+W+H) is implied: enabled=%s low=%s high=%s' % (en, lo_ok, hi_ok), where,
                               key='R-HYST:fallthrough-window')
                    # memoryless path
                    vc = Poly.const(0) if vname == 'nan' else (Poly.const(qz.VMAX) if vname == '+inf' else (ZERO if vname == '-inf' else t_min(t_max(v.term, ZERO, o.ctx, 'fmax'), Poly.const(qz.VMAX), o.ctx, 'fmin')))
                    arg = fnn[0][1] if fnn else None
                    if prop in ('C08', 'C09', 'C19') and has_stub:
                        res.ob('R-HYST', inst + '|search input is the clamped input', len(fnn) == 1 and arg == vc,
                               'find_nearest_note called %d time(s) with %r; expected clamp(v, 0, V_MAX) = %r' % (len(fnn), arg, vc), where, key='R-HYST:search-arg:%s' % vname)
                    note1 = cc1.get('note_num')
                    ss1 = cc1.get('stairstep')
                    fr1 = cc1.get('fraction')
                    if prop in ('C19', 'C09'):
                        ok_ss = isinstance(ss1, Num) and isinstance(note1, Num) and ss1.term == note1.term.scale(Fr(1, 12))
                        res.ob('R-RECORD', inst + '|stairstep = note_num/12', ok_ss, 'stairstep = %r for note_num %r' % (ss1, note1), where, key='R-RECORD:stairstep:%s' % vname)
                        ok_fr = isinstance(fr1, Num) and isinstance(ss1, Num) and fr1.term == vc - ss1.term
                        res.ob('R-RECORD', inst + '|fraction = clamped input - stairstep', ok_fr, 'fraction = %r; expected %r - stairstep' % (fr1, vc), where, key='R-RECORD:fraction:%s' % vname)
                    if prop == 'C09':
                        # history-free: no pre-state cached symbol survives in the result
                        bad = set()
                        for fv in (note1, ss1, fr1):
                            if isinstance(fv, Num):
                                for a in all_atoms(fv.term):
                                    if a[0] == 'sym' and (a[1].startswith('cached.') or a[1].startswith('self.cached_conversion')):
                                        bad.add(a[1])
                        res.ob('R-HYST', inst + '|result outside the window is history-free', not bad, 'result depends on the previous conversion through %s' % sorted(bad), where, key='R-HYST:history-free:%s' % vname)
    res.floor('convert_outcomes', n, 4 if prop == 'C08' else 6)   # at least one outcome per input partition (finite, +inf, -inf, NaN) per pre-state analysed
    return n


def all_atoms(p, acc=None):
    acc = acc if acc is not None else set()
    for a in p.atoms():
        acc.add(a)
        for x in a[1:]:
            if isinstance(x, Poly):
                all_atoms(x, acc)
            elif isinstance(x, tuple):
                for y in x:
                    if isinstance(y, Poly):
                        all_atoms(y, acc)
    return acc


# ---------------------------------------------------------------------------------------
# find_nearest_note: the scan

class SearchRun:
    """Loop-head abstraction of the nearest-note scan (installed as the interpreter's loop hook).

    The scan is recognised by role, wherever it lives inside the quantizer module: the first loop met is the octave loop,
    the second the pitch-class loop (it may sit in a helper the first one calls); the two accumulators are the memory
    slots -- plain locals, or fields of one private struct passed down by `&mut` -- that hold `0` and the maximum of
    their type when the octave loop is entered."""

    def __init__(self, qz, outer, inner, v_range=(0, None)):
        self.qz = qz
        self.modes = [outer, inner]
        self.acc_locals = None     # 'best' / 'dist' -> {'cell', 'path', 'init'}   (name kept: rules test it for None / len)
        self.heads = []            # (function path, loop head) in order of first visit
        self.vec_terms = []
        self.pre_havoc = []
        self.v_range = v_range
        self.fn_path = None        # function holding the octave loop
        self.fn_paths = set()      # functions holding either loop
        self.inner_domain = []

    # -- accumulator slots: (frame index in the call stack, local index, field path).  Addressed through the frame's
    # current binding of the local on every access (the interpreter may re-bind a local to a fresh cell).
    def _cell(self, state, key):
        a = self.acc_locals[key]
        frames = state.frames
        if a['frame'] >= len(frames):
            return None
        return frames[a['frame']].locals.get(a['local'])

    def acc_get(self, state, key):
        a = self.acc_locals[key]
        cell = self._cell(state, key)
        v = state.cells.get(cell) if cell is not None else None
        for i in a['path']:
            if not isinstance(v, StructV):
                return None
            v = v.fields[i]
        return v

    def acc_set(self, state, key, val):
        a = self.acc_locals[key]
        cell = self._cell(state, key)
        if cell is None:
            return
        if not a['path']:
            state.cells[cell] = val
            return
        v = state.cells.get(cell)
        for i in a['path'][:-1]:
            v = v.fields[i]
        v.fields[a['path'][-1]] = val

    def _find_accs(self, st, fr, cfg, head):
        qz = self.qz
        assigned = set()
        for b in cfg.loops[head]:
            for s_ in fr.fn['blocks'][b]['stmts']:
                if s_['k'] == 'assign' and not s_['place']['p']:
                    assigned.add(s_['place']['l'])
        slots = []     # (local, path, Num)
        for l, cell in sorted(fr.locals.items()):
            v = st.cells.get(cell)
            if isinstance(v, Num) and v.term.const_value() is not None and l in assigned:
                slots.append((l, (), v))
            elif isinstance(v, StructV) and v.path.startswith('synth_utils::'):
                for i, f in enumerate(v.fields):
                    if isinstance(f, Num) and f.term.const_value() is not None:
                        slots.append((l, (i,), f))
        # best distance: starts at the maximum of its type; best candidate: starts at 0 and has the same type (or a type too
        # narrow for microvolts: a note number).  Other constant-initialised slots (explicit loop indices) are loop variables.
        self.acc_locals = {}
        dist = [x for x in slots if x[2].ty in INT_RANGES_ and x[2].term.const_value() == INT_RANGES_[x[2].ty][1]]
        if len(dist) != 1:
            return
        d = dist[0]
        zero = [x for x in slots if x[2].term.const_value() == 0 and x is not d and bool(x[1]) == bool(d[1]) and (not d[1] or x[0] == d[0])]
        best = [x for x in zero if x[2].ty == d[2].ty] or [x for x in zero if x[2].ty in INT_RANGES_ and INT_RANGES_[x[2].ty][1] < qz.H]
        if len(best) != 1:
            return
        b = best[0]
        fi = len(st.frames) - 1
        self.acc_locals = {'best': {'frame': fi, 'local': b[0], 'path': b[1], 'init': b[2]}, 'dist': {'frame': fi, 'local': d[0], 'path': d[1], 'init': d[2]}}
        self.form = 'note' if INT_RANGES_[b[2].ty][1] < qz.H else 'uv'

    def hook(self, it, st, fr, cfg, head):
        key = (fr.fn['path'], head)
        known = key in self.heads
        if not fr.fn['path'].lstrip('<').startswith('synth_utils::quantizer::') or (not known and len(self.heads) >= 2):
            it.havoc_loop(st, fr, cfg, head)
            return
        if not known:
            self.heads.append(key)
        depth = self.heads.index(key)
        if depth == 0:
            self.fn_path = fr.fn['path']
        self.fn_paths.add(fr.fn['path'])
        mode = self.modes[min(depth, len(self.modes) - 1)]
        if self.acc_locals is None:
            self._find_accs(st, fr, cfg, head)
        if depth == 0:
            # the octave list being iterated (one per path reaching the outer loop)
            seen_terms = set()
            for l, cell in fr.locals.items():
                v = st.cells.get(cell)
                if isinstance(v, ContV) and v.kind in ('vec_iter', 'vec') and v.term not in seen_terms:
                    seen_terms.add(v.term)
                    self.vec_terms.append((v.term, st.ctx.copy()))
                elif isinstance(v, StructV) and v.path.endswith('RangeInclusive') and isinstance(v.get('start'), Num):
                    k_ = ('incl', v.get('start').term, v.get('end').term)
                    if k_ not in seen_terms:
                        seen_terms.add(k_)
                        self.vec_terms.append((k_, st.ctx.copy()))
        if depth == 1 and not self.inner_domain:
            # iteration domain of the inner scan: a Range with constant bounds, or a counted loop from a constant
            for l, cell in fr.locals.items():
                v = st.cells.get(cell)
                if isinstance(v, StructV) and v.path.endswith('ops::range::Range') and isinstance(v.get('start'), Num):
                    a_, b_ = v.get('start').term.const_value(), v.get('end').term.const_value()
                    if a_ is not None and b_ is not None:
                        self.inner_domain.append((int(a_), int(b_)))
            if not self.inner_domain:
                from .panic import counted_loop
                det = counted_loop(fr.fn, cfg.loops[head], details=True)
                if det:
                    cl, bound, op = det
                    v0 = st.cells.get(fr.locals.get(cl))
                    if isinstance(v0, Num) and v0.term.const_value() is not None and bound is not None and op in ('Lt',):
                        self.inner_domain.append((int(v0.term.const_value()), bound))
        saved = {k_: copy.deepcopy(self.acc_get(st, k_)) for k_ in self.acc_locals}
        # fields of the accumulator struct that no function of the crate ever assigns (e.g. the search target stored beside
        # the accumulators) survive the field-insensitive havoc of a struct handed down by `&mut`
        keep = {}
        a0 = self.acc_locals.get('best')
        if a0 and a0['path']:
            cell0 = self._cell(st, 'best')
            sv0 = st.cells.get(cell0) if cell0 is not None else None
            if isinstance(sv0, StructV):
                for i_, nm in enumerate(sv0.names):
                    if (i_,) not in (a0['path'], self.acc_locals['dist']['path']) and not _field_assigned(it.facts, nm):
                        keep[i_] = copy.deepcopy(sv0.fields[i_])
        # plain havoc: the ranges of the loop symbols come from the iterator models, the accumulators from A/B below
        it.apply_havoc(st, fr, head, it.loop_places(st, fr, cfg, head))
        if keep:
            cell0 = self._cell(st, 'best')
            sv0 = st.cells.get(cell0) if cell0 is not None else None
            if isinstance(sv0, StructV):
                for i_, v_ in keep.items():
                    sv0.fields[i_] = v_
        qz = self.qz
        if mode == 'A':
            for k_, v in saved.items():
                self.acc_set(st, k_, v)
        elif mode == 'B':
            if depth == 0 or not any(isinstance(v, Num) and 'prev.' in repr(v.term) for v in saved.values()):
                # some earlier candidate: pc'*H + k'*O with pc' enabled
                pc = st.ctx.sym_range(st.fresh_name('prev.pc'), 0, 11, integer=True)
                kk = st.ctx.sym_range(st.fresh_name('prev.oct'), 0, qz.MAX_OCT + 1, integer=True)
                st.ctx.assume(qz.enabled(Poly.sym('self.allowed'), pc, st.ctx))
                cand = (pc + kk.scale(12)) if getattr(self, 'form', 'uv') == 'note' else (pc.scale(qz.H) + kk.scale(qz.O))
                for k_, a in self.acc_locals.items():
                    if k_ == 'best':
                        self.acc_set(st, k_, Num(cand, a['init'].ty))
                    else:
                        d = st.ctx.sym_range(st.fresh_name('prev.delta'), 0, 2 ** 32 - 1, integer=True)
                        self.acc_set(st, k_, Num(d, a['init'].ty))
            else:
                for k_, v in saved.items():
                    self.acc_set(st, k_, v)
        if depth == 1 and self.acc_locals:
            # accumulators at the head of the candidate iteration about to be analysed (R-ARGMIN compares the back edges with them)
            st.tags['search_pre'] = {k_: self.acc_get(st, k_).term for k_ in self.acc_locals if isinstance(self.acc_get(st, k_), Num)}
            st.tags['search_inner_head'] = key
            self.visits = getattr(self, 'visits', 0) + 1
            st.tags['search_visit'] = self.visits     # one analysed iteration per path reaching the inner loop head
            st.tags['last_next'] = None


_ASSIGNED = {}


def _field_assigned(facts, field_name):
    """is a field of this name ever the target of an assignment (through any projection) in the crate?  Struct literals do not
    count."""
    key = id(facts)
    if key not in _ASSIGNED:
        names = set()
        for p_, f in facts.fns.items():
            if f.get('crate') != 'synth_utils':
                continue
            for b in f['blocks']:
                for s_ in b['stmts']:
                    if s_['k'] == 'assign':
                        for pe in s_['place']['p']:
                            if pe.get('k') == 'field' and pe.get('name'):
                                names.add(pe['name'])
                t_ = b['term']
                if t_['k'] == 'call' and t_.get('dest'):
                    for pe in t_['dest']['p']:
                        if pe.get('k') == 'field' and pe.get('name'):
                            names.add(pe['name'])
        _ASSIGNED[key] = names
    return field_name in _ASSIGNED[key]


def best_to_volt(qz, t, ctx, form):
    """voltage (microvolts) of the candidate a best-candidate accumulator stands for"""
    if form == 'note':
        return t_mod(t, Poly.const(12), ctx).scale(qz.H) + t_idiv(t, Poly.const(12), ctx).scale(qz.O)
    return t


def inv_B(qz, t, ctx, form='uv'):
    """does term t have the form pc*H + k*O (or, as a note number, 12*k + pc) with pc in [0,11] enabled (under ctx)?"""
    from ..terms import pin_atoms
    t = pin_atoms(t, ctx)
    q = t if form == 'note' else t_idiv(t, Poly.const(qz.H), ctx)
    pc = pin_atoms(t_mod(q, Poly.const(12), ctx), ctx)
    k = t_idiv(q, Poly.const(12), ctx)
    lo, hi = ctx.rng(pc)
    if not (lo >= 0 and hi <= 11):
        return False, 'pitch class %r not within [0,11]' % (pc,)
    if form == 'note':
        if t != pc + k.scale(12):
            return False, '%r is not 12*k + pc' % (t,)
    elif t != pc.scale(qz.H) + k.scale(qz.O):
        return False, '%r is not pc*H + k*O' % (t,)
    if ctx.decide(qz.enabled(Poly.sym('self.allowed'), pc, ctx)) is not True:
        return False, 'pitch class %r not known to be enabled' % (pc,)
    return True, 'pc=%r k=%r' % (pc, k)


def check_search(res, facts, prop):
    qz = Qz(facts)
    where = where_of(facts, FNN) if FNN in facts.fns else where_of(facts, Q + '::convert')
    H, O = qz.H, qz.O
    res.ob('R-SEARCH', 'microvolt constants consistent', O == 1000000 and H == O // 12 and 11 * H < O and (qz.MAX_OCT + 2) * (O - 12 * H) < H,
           'HALF_STEP=%d ONE_OCTAVE=%d MAX_OCTAVE=%d (12 half steps must fill an octave up to a drift < one half step over the whole range)' % (H, O, qz.MAX_OCT))
    n_ret = 0
    n_back = 0
    n_step = 0
    orders_seen = 0
    for modes in (('A', 'A'), ('A', 'B'), ('B', 'B')):
        it = qz.interp()
        st = State()
        # the scan is reached through the public entry point: a freshly constructed quantizer cannot take the
        # hysteresis early return (R-HYST), so convert(v) is exactly the memoryless search for v in [0, V_MAX]
        q = qz.quantizer(it, st, cached='fresh')
        # every real input: the clamp in front of the search is part of what is analysed (without it a large input
        # overflows the u8 note number and lands on a forbidden pitch class)
        # (C08 is stated for the clamped input and builds its reference `vin` from v directly; the clamp itself is R-HYST's)
        v = float_sym(st, 'v', 0, qz.VMAX) if prop == 'C08' else float_sym(st, 'v', -INF, INF)
        run = SearchRun(qz, *modes)
        it.loop_hook = run.hook
        try:
            outs, cell = run_method(it, st, Q + '::convert', q, [v])
        except InterpError as e:
            res.ob('R-SEARCH', 'convert->search|%s' % (modes,), False, 'analysis failed: %s' % e, where)
            continue
        for o in outs:
            if o.status == 'returned' and isinstance(o.ret, StructV) and 'note_num' in o.ret.names:
                o.ret = o.ret.get('note_num')
        res.absorb(it)
        vin = t_f2i(v.term.scale(O), 0, 2 ** 32 - 1, st.ctx)
        k0 = t_idiv(vin, Poly.const(O), st.ctx)
        inst0 = 'search|outer=%s,inner=%s' % modes
        # (C07 only needs the invariant of the recorded best over whatever loop structure visits the candidates; the ordering
        # premises of C08 are stated for the two-level scan)
        res.ob('R-SEARCH', inst0 + '|accumulators found', run.acc_locals is not None and len(run.acc_locals) == 2 and (len(run.heads) == 2 or (prop == 'C07' and len(run.heads) == 1)),
               'loop-carried accumulators %s, loop heads %s (expected best-candidate and best-distance in a two-level scan)' % (run.acc_locals, run.heads), where, key='R-SEARCH:shape:%s%s' % modes)
        if run.acc_locals is None:
            continue
        best_l = ['best'] if 'best' in run.acc_locals else []
        # (i) the octaves searched: ascending, exactly {k-1 if k>=1, k, k+1 if k<MAX}
        if modes == ('A', 'A') and prop == 'C08':
            for term, ctx in run.vec_terms:
                if isinstance(term, tuple) and term and term[0] == 'incl':
                    # an inclusive range start..=end is ascending by construction; expand it over the (at most three) octaves
                    lo_t, hi_t = term[1], term[2]
                    elems = [e for e in (k0 - 1, k0, k0 + 1)
                             if ctx.decide(cmp_term('Ge', e, lo_t)) is True and ctx.decide(cmp_term('Le', e, hi_t)) is True]
                    if not (ctx.decide(cmp_term('Ge', lo_t, k0 - 1)) is True and ctx.decide(cmp_term('Le', hi_t, k0 + 1)) is True):
                        elems = None
                else:
                    elems = _pushed_elems(term)
                orders_seen += 1
                ok = elems is not None and all(isinstance(e, Poly) for e in elems)
                desc = 'octaves pushed: %r' % (elems,)
                if ok:
                    asc = all(ctx.decide(cmp_term('Lt', elems[i], elems[i + 1])) is True for i in range(len(elems) - 1))
                    has_k = any(e == k0 for e in elems)
                    below = any(e == k0 - 1 for e in elems)
                    above = any(e == k0 + 1 for e in elems)
                    need_below = ctx.decide(cmp_term('Ge', k0, 1))
                    need_above = ctx.decide(cmp_term('Lt', k0, qz.MAX_OCT))
                    extra = [e for e in elems if e not in (k0, k0 - 1, k0 + 1)]
                    ok = asc and has_k and not extra and (below == (need_below is True)) and (need_below is not None) and (above == (need_above is True)) and (need_above is not None)
                    desc += '; ascending=%s, k in list=%s, k-1 searched=%s (k>=1 is %s), k+1 searched=%s (k<MAX is %s)' % (asc, has_k, below, need_below, above, need_above)
                res.ob('R-SEARCHORDER', 'octave list %d' % orders_seen, ok, desc + ' — the early exits of the scan need ascending candidates over exactly the octaves k-1, k, k+1 that exist', where,
                       key='R-SEARCHORDER:%d' % orders_seen)
        if modes == ('A', 'A') and prop == 'C08':
            res.ob('R-SEARCHORDER', 'inner scan visits the pitch classes 0..12 in ascending order', set(run.inner_domain) == {(0, 12)},
                   'iteration domain of the inner loop: %s (expected a range / counted loop from 0 up to 12)' % (run.inner_domain,), where, key='R-SEARCHORDER:inner')
        # (ii) returns and back edges
        for o in sem_iter(outs, include_loopback=True):
            if o.status == 'returned':
                n_ret += 1
                r = o.ret
                if not isinstance(r, Num):
                    res.ob('R-SEARCH', inst0 + '|return', False, 'non-numeric return %r' % (r,), where)
                    continue
                # which kind of return: the untouched initial best (A exit), or a candidate
                is_init = modes[0] == 'A' and r.term == ZERO and not any('iter_elem' in repr(a) or 'range_start' in repr(a) for a in all_atoms(r.term))
                from ..terms import pin_atoms
                pcs = pin_atoms(t_mod(pin_atoms(r.term, o.ctx), Poly.const(12), o.ctx), o.ctx)
                octs = t_idiv(r.term, Poly.const(12), o.ctx)
                volt = pcs.scale(H) + octs.scale(O)
                en = o.ctx.decide(qz.enabled(Poly.sym('self.allowed'), pcs, o.ctx))
                if is_init:
                    # single reasoned exception: the zero-initialised best reaches a return only if no enabled bit was met in
                    # complete 0..12 scans, excluded by the mask invariant allowed != 0 (R-MASK)
                    res.ob('R-SEARCH', inst0 + '|initial best returned only for an empty scale', True, 'exception: excluded by R-MASK (allowed in [1,4095])', where, key='R-SEARCH:init-exception', nontrivial=False)
                    continue
                if prop in ('C07', 'C09'):
                    res.ob('R-SEARCH', inst0 + '|returned note is enabled', en is True,
                           'returned note %r has pitch class %r which is not known to be enabled on this path' % (r.term, pcs), where, key='R-SEARCH:enabled:%s%s:%d' % (modes[0], modes[1], n_ret))
                if prop == 'C08':
                    # the returned note is the note of a visited candidate: its voltage is either within one half step of the
                    # input (close return) or it is the recorded best candidate (B form)
                    d = vin - volt
                    close = _abs_cmp(o.ctx, 'Lt', d, Poly.const(H))
                    recorded = 'prev.' in repr(r.term)
                    res.ob('R-SEARCH', inst0 + '|returned note is a visited candidate', close or recorded,
                           'return value %r: voltage %r is neither within one half step of the input on this path nor the recorded best candidate' % (r.term, volt), where,
                           key='R-SEARCH:candidate:%s%s:%d' % (modes[0], modes[1], n_ret))
            elif o.status == 'loopback':
                n_back += 1
                fr = o.state.frames[-1] if o.state.frames else None
                if fr is None or fr.fn['path'] not in run.fn_paths:
                    continue
                for l in best_l:
                    cur = run.acc_get(o.state, l)
                    if not isinstance(cur, Num):
                        res.ob('R-SEARCH', inst0 + '|inductive', False, 'best candidate is %r at the back edge' % (cur,), where)
                        continue
                    if cur.term == ZERO and modes[1] == 'A':
                        continue   # still state A
                    ok, why = inv_B(qz, cur.term, o.ctx, getattr(run, 'form', 'uv'))
                    res.ob('R-SEARCH', inst0 + '|best candidate stays an enabled candidate (inductive)', ok,
                           'best candidate at the back edge = %r: %s' % (cur.term, why), where, key='R-SEARCH:inductive:%s%s:%d' % (modes[0], modes[1], n_back))
            elif o.status in ('panic', 'stuck'):
                res.ob('R-SEARCH', inst0, False, 'path ends with %s: %s' % (o.status, o.panic_info), where, key='R-SEARCH:%s:%s' % (inst0, o.status))
        if prop == 'C08':
            n_step += check_argmin_steps(res, qz, run, outs, vin, inst0, where)
    res.floor('search_returns', n_ret, 6)
    res.floor('search_back_edges', n_back, 4)
    if prop == 'C08':
        res.floor('octave_lists', orders_seen, 3)
        res.floor('argmin_steps', n_step, 30)
    return n_ret


def check_tiling(res, facts):
    """C19, chromatic clause ("for the chromatic scale without history the fraction lies in [0, 1) semitone"): a necessary
    condition is that the candidate voltages the scan compares against tile the octave exactly, i.e. the step between
    neighbouring pitch classes times 12 equals the step between octaves.  Otherwise the twelfth bucket of every octave is
    short: an input in the gap below an octave boundary is at least one half step away from B and is reported as the next C,
    with a negative fraction.  The two steps are read off the candidate term the scan stores (coefficients of the pitch-class
    and octave loop variables), not off named constants."""
    qz = Qz(facts)
    where = where_of(facts, FNN) if FNN in facts.fns else where_of(facts, Q + '::convert')
    it = qz.interp()
    st = State()
    q = qz.quantizer(it, st, cached='fresh')
    v = float_sym(st, 'v', 0, qz.VMAX)
    run = SearchRun(qz, 'A', 'A')
    it.loop_hook = run.hook
    try:
        outs, cell = run_method(it, st, Q + '::convert', q, [v])
    except InterpError as e:
        res.ob('R-TILING', 'candidate steps', False, 'analysis failed: %s' % e, where)
        return
    res.absorb(it)
    steps = set()
    vins = []
    if run.acc_locals and len(run.acc_locals) == 2:
        form = getattr(run, 'form', 'uv')
        for o in sem_iter(outs, include_loopback=True):
            if o.status != 'loopback':
                continue
            b1 = run.acc_get(o.state, 'best')
            if not isinstance(b1, Num) or b1.term.const_value() is not None:
                continue
            c = best_to_volt(qz, b1.term, o.ctx, form)
            d1 = run.acc_get(o.state, 'dist')
            if isinstance(d1, Num):
                # the distance stored with the candidate is |input - candidate|: recover the integer input the scan compares
                for cand_in in (d1.term + c, c - d1.term):
                    if not any(a[0] in ('abs',) for a in cand_in.atoms()):
                        vins.append(cand_in)
                a_abs = [a for a in d1.term.atoms() if a[0] == 'abs']
                if a_abs and isinstance(a_abs[0][1], Poly):
                    vins.append(a_abs[0][1] + c)
                    vins.append(c - a_abs[0][1])
            co = sorted(int(x) for m, x in c.t.items() if m != () and len(m) == 1 and m[0][1] == 1 and x.denominator == 1)
            if len(co) == 2 and len(c.t) == 2:
                steps.add((co[0], co[1]))
    ok_shape = len(steps) == 1
    res.ob('R-TILING', 'candidate = pitch class * step + octave * octave-step', ok_shape, 'candidate steps found: %s' % sorted(steps), where, key='R-TILING:shape', nontrivial=True)
    if not ok_shape:
        return
    h, o_ = next(iter(steps))
    # the input is brought onto the candidate grid by truncation: an allowed note never claims an input below its own voltage
    exp_vin = t_f2i(v.term.scale(o_), 0, 2 ** 32 - 1, st.ctx)
    res.ob('R-TILING', 'the input is truncated (not rounded) onto the microvolt grid', any(x == exp_vin for x in vins),
           'the scan compares candidates against %s; expected trunc(v * %d) (rounding up assigns the last fraction of a microvolt below a note to that note: negative fraction)'
           % (sorted({repr(x) for x in vins})[:3], o_), where, key='R-TILING:trunc')
    res.ob('R-TILING', 'twelve pitch-class steps fill one octave step exactly', 12 * h == o_,
           'candidate voltages are pc*%d + octave*%d microvolts: 12*%d = %d != %d, the last bucket of every octave is %d uV short; e.g. the chromatic '
           'scale at v = 0.999997 V is reported as note 12 (1.0 V) with fraction -2.98e-6 V although the clause demands a fraction in [0, 1) semitone'
           % (h, o_, h, 12 * h, o_, o_ - 12 * h), where, key='R-TILING:12H==O')


def _abs_cmp(ctx, op, d, x):
    """decide `|d| op x` from the path facts without knowing the sign of d (None = undecided is reported as False)"""
    a = t_abs(d, ctx)
    if op == 'Eq' and (a == x or ctx.sem_eq(a, x)):
        return True
    if op != 'Eq' and ctx.decide(cmp_term(op, a, x)) is True:
        return True
    if op != 'Eq':
        # sign of d known on this path: |d| is d or -d
        if ctx.decide(cmp_term('Ge', d, ZERO)) is True:
            return ctx.decide(cmp_term(op, d, x)) is True
        if ctx.decide(cmp_term('Le', d, ZERO)) is True:
            return ctx.decide(cmp_term(op, -d, x)) is True
    if op == 'Lt':
        return ctx.decide(cmp_term('Lt', d, x)) is True and ctx.decide(cmp_term('Lt', -d, x)) is True
    if op == 'Le':
        return ctx.decide(cmp_term('Le', d, x)) is True and ctx.decide(cmp_term('Le', -d, x)) is True
    if op == 'Ge':
        return ctx.decide(cmp_term('Ge', d, x)) is True or ctx.decide(cmp_term('Ge', -d, x)) is True
    if op == 'Gt':
        return ctx.decide(cmp_term('Gt', d, x)) is True or ctx.decide(cmp_term('Gt', -d, x)) is True
    if op == 'Eq':
        return ((d == x or ctx.sem_eq(d, x)) and ctx.decide(cmp_term('Ge', d, ZERO)) is True) or \
               ((-d == x or ctx.sem_eq(-d, x)) and ctx.decide(cmp_term('Le', d, ZERO)) is True)
    raise ValueError(op)


def check_argmin_steps(res, qz, run, outs, vin, inst0, where):
    """R-ARGMIN: one iteration of the candidate scan, from an arbitrary accumulator state (best0, dist0) at the inner loop
    head, is one step of a running arg-min over |vin - candidate| with sound early exits:
      candidate disabled          -> (best, dist) unchanged
      |d| < H                     -> the only way out is returning the candidate itself (continuing / returning best need |d| >= H)
      return best                 -> only when dist0 <= |d|   (the scan has passed the nearest candidate)
      continue with (c, |d|)      -> only when |d| <= dist0
      continue with (best0,dist0) -> only when dist0 <= |d|
    Together with ascending candidates (R-SEARCHORDER) this is the premise set of the nearest-note lemma (DESIGN §6 C08)."""
    H, O = qz.H, qz.O
    if not run.acc_locals or len(run.acc_locals) != 2:
        return 0
    best_l, dist_l = 'best', 'dist'
    form = getattr(run, 'form', 'uv')
    # pass 1: the candidate of each analysed iteration = the term returned by a close return / stored by an update
    cands = {}
    for o in sem_iter(outs, include_loopback=True):
        pre = o.state.tags.get('search_pre')
        if not pre or best_l not in pre or dist_l not in pre:
            continue
        visit = o.state.tags.get('search_visit')
        best0, dist0 = best_to_volt(qz, pre[best_l], o.ctx, form), pre[dist_l]
        fr = o.state.frames[-1] if o.state.frames else None
        term = None
        if o.status == 'returned' and isinstance(o.ret, Num):
            pcs = t_mod(o.ret.term, Poly.const(12), o.ctx)
            octs = t_idiv(o.ret.term, Poly.const(12), o.ctx)
            volt = pcs.scale(H) + octs.scale(O)
            if not (volt == best0 or o.ctx.sem_eq(volt, best0)):
                term = volt
        elif o.status == 'loopback' and fr is not None and fr.fn['path'] in run.fn_paths:
            b1 = run.acc_get(o.state, best_l)
            if isinstance(b1, Num):
                b1v = best_to_volt(qz, b1.term, o.ctx, form)
                if not (b1v == best0 or o.ctx.sem_eq(b1v, best0)):
                    term = b1v
        if term is not None:
            lst = cands.setdefault(visit, [])
            if not any(term == u for u in lst):
                lst.append(term)
    inst = inst0 + '|step'
    ok_c = bool(cands) and all(len(v) == 1 for v in cands.values())
    if not res.ob('R-ARGMIN', inst + '|one candidate per iteration', ok_c,
                  'candidate terms stored / returned by one iteration of the scan: %r (expected exactly one per analysed iteration: n*H + k*O of the loop indices)' % (cands,), where,
                  key='R-ARGMIN:candidate:%s' % inst0):
        return 0
    n = 0
    for o in sem_iter(outs, include_loopback=True):
        pre = o.state.tags.get('search_pre')
        if not pre or best_l not in pre or dist_l not in pre:
            continue
        best0, dist0 = best_to_volt(qz, pre[best_l], o.ctx, form), pre[dist_l]
        fr = o.state.frames[-1] if o.state.frames else None
        ctx = o.ctx
        if o.state.tags.get('search_visit') not in cands:
            continue    # an iteration none of whose paths stores or returns a candidate (cannot happen for a scan; floors guard it)
        c = cands[o.state.tags.get('search_visit')][0]
        d = vin - c
        pc = t_mod(t_idiv(c, Poly.const(H), ctx), Poly.const(12), ctx)
        en = ctx.decide(qz.enabled(Poly.sym('self.allowed'), pc, ctx))
        if o.status == 'loopback':
            if fr is None or fr.fn['path'] not in run.fn_paths:
                continue
            n += 1
            b1 = run.acc_get(o.state, best_l)
            d1 = run.acc_get(o.state, dist_l)
            if not (isinstance(b1, Num) and isinstance(d1, Num)):
                res.ob('R-ARGMIN', inst + '|accumulators', False, 'accumulators at the back edge: %r, %r' % (b1, d1), where, key='R-ARGMIN:acc:%s:%d' % (inst0, n))
                continue
            b1 = Num(best_to_volt(qz, b1.term, ctx, form), b1.ty)
            same_best = b1.term == best0 or ctx.sem_eq(b1.term, best0)
            same_dist = d1.term == dist0 or ctx.sem_eq(d1.term, dist0)
            to_inner = o.state.tags.get('loopback_target') == o.state.tags.get('search_inner_head')
            if not to_inner or en is False:
                # inner scan finished, or the pitch class of this candidate is disabled: nothing may change
                res.ob('R-ARGMIN', inst + '|%s leaves the best candidate and its distance alone' % ('end of the pitch-class scan' if not to_inner else 'disabled pitch class'),
                       same_best and same_dist, 'best %r -> %r, distance %r -> %r' % (best0, b1.term, dist0, d1.term), where, key='R-ARGMIN:keep:%s:%d' % (inst0, n))
                ln = o.state.tags.get('last_next')
                if not to_inner and (ln == 'some' or (ln is None and en is not None)):
                    # the iterator driving the pitch-class scan yielded a candidate on this path (or, for a hand-written counter
                    # loop, the candidate's enabled bit was tested) - so the scan had NOT run out - and then the scan was left
                    # (a `break`): the rest of the octave is skipped, which is only sound after the last pitch class or once
                    # the scan has passed the nearest candidate (ascending order: everything later is farther)
                    last = ctx.decide(cmp_term('Ge', pc, 11)) is True
                    passed = _abs_cmp(ctx, 'Ge', d, dist0) and _abs_cmp(ctx, 'Ge', d, Poly.const(H)) and ctx.decide(cmp_term('Ge', c, vin)) is True
                    res.ob('R-ARGMIN', inst + '|the pitch-class scan is abandoned only after its last candidate or past the nearest one', last or passed,
                           'the scan of this octave is left after candidate %r (pitch class %r) on a path that implies neither "last pitch class" nor "already farther than the best so far and above the input"; later candidates of the octave are never compared' % (c, pc),
                           where, key='R-ARGMIN:break:%s:%d' % (inst0, n))
                continue
            if en is not True:
                res.ob('R-ARGMIN', inst + '|candidate enabled-ness decided on every path', False,
                       'a path through one iteration neither tests nor excludes bit %r of the scale' % (pc,), where, key='R-ARGMIN:undecided:%s:%d' % (inst0, n))
                continue
            not_close = _abs_cmp(ctx, 'Ge', d, Poly.const(H))
            if same_best:
                ok = same_dist and _abs_cmp(ctx, 'Ge', d, dist0) and not_close
                res.ob('R-ARGMIN', inst + '|enabled candidate skipped only when it is not closer than the best so far (and not within a half step)', ok,
                       'continues with (best, distance) = (%r, %r) after candidate %r; path implies distance0 <= |vin-c|: %s, |vin-c| >= H: %s' % (
                           b1.term, d1.term, c, _abs_cmp(ctx, 'Ge', d, dist0), not_close), where, key='R-ARGMIN:skip:%s:%d' % (inst0, n))
            else:
                is_c = b1.term == c or ctx.sem_eq(b1.term, c)
                ok = is_c and _abs_cmp(ctx, 'Eq', d, d1.term) and _abs_cmp(ctx, 'Le', d, dist0) and not_close
                res.ob('R-ARGMIN', inst + '|update records (candidate, |vin - candidate|) and only when that is not farther than the best so far', ok,
                       'continues with (best, distance) = (%r, %r) after candidate %r with distance0 = %r; distance = |vin-c|: %s, |vin-c| <= distance0: %s, |vin-c| >= H: %s' % (
                           b1.term, d1.term, c, dist0, _abs_cmp(ctx, 'Eq', d, d1.term), _abs_cmp(ctx, 'Le', d, dist0), not_close), where, key='R-ARGMIN:update:%s:%d' % (inst0, n))
        elif o.status == 'returned' and isinstance(o.ret, Num):
            n += 1
            pcs = t_mod(o.ret.term, Poly.const(12), ctx)
            octs = t_idiv(o.ret.term, Poly.const(12), ctx)
            volt = pcs.scale(H) + octs.scale(O)
            if volt == best0 or ctx.sem_eq(volt, best0):
                if best0 == ZERO and dist0.const_value() is not None:
                    continue   # initial best: R-SEARCH init exception
                ok = _abs_cmp(ctx, 'Ge', d, dist0) and _abs_cmp(ctx, 'Ge', d, Poly.const(H))
                res.ob('R-ARGMIN', inst + '|best so far returned early only when the current candidate is farther (the scan has passed the input)', ok,
                       'returns the recorded best %r at candidate %r: path implies distance0 <= |vin-c|: %s, |vin-c| >= H: %s' % (
                           best0, c, _abs_cmp(ctx, 'Ge', d, dist0), _abs_cmp(ctx, 'Ge', d, Poly.const(H))), where, key='R-ARGMIN:passed:%s:%d' % (inst0, n))
            else:
                ok = (volt == c or ctx.sem_eq(volt, c)) and en is True and _abs_cmp(ctx, 'Lt', d, Poly.const(H))
                res.ob('R-ARGMIN', inst + '|candidate returned early only when enabled and within a half step of the input', ok,
                       'returns %r (voltage %r) at candidate %r: enabled %s, |vin-c| < H: %s' % (o.ret.term, volt, c, en, _abs_cmp(ctx, 'Lt', d, Poly.const(H))),
                       where, key='R-ARGMIN:close:%s:%d' % (inst0, n))
    return n
