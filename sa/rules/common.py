"""Helpers shared by the rule modules."""
import copy
from fractions import Fraction as Fr

from ..terms import Poly, B, Ctx, INF, TRUE, FALSE, bconst, cmp_term, as_poly
from ..interp import (Interp, State, Num, BoolV, StructV, EnumV, TupleV, RefV, ContV, LazyV, Opaque, UnitV,
                      ClosureV, ArrV, InterpError, INT_RANGES)


def adt_ty(path, args=None):
    return {'k': 'adt', 'path': path, 'args': args or [], 's': path}


def variant_index(facts, path, name):
    adt = facts.adt(path)
    for i, v in enumerate(adt['variants']):
        if v['name'] == name:
            return i
    raise KeyError('%s::%s' % (path, name))


def variant_names(facts, path):
    return [v['name'] for v in facts.adt(path)['variants']]


def make_enum(facts, path, vname, payload=None):
    vi = variant_index(facts, path, vname)
    return EnumV(path, vi, {vi: list(payload or [])}, vnames=variant_names(facts, path))


def newtype(facts, path, inner):
    adt = facts.adt(path)
    names = [f['name'] for f in adt['variants'][0]['fields']]
    if not isinstance(inner, (list, tuple)):
        inner = [inner]
    return StructV(path, names, list(inner))


def int_sym(st, name, lo, hi, ty='u8'):
    p = st.ctx.sym_range(name, lo, hi, integer=True)
    return Num(p, ty)


def float_sym(st, name, lo=-INF, hi=INF, ty='f32'):
    p = st.ctx.sym_range(name, lo, hi)
    return Num(p, ty)


def same(a, b):
    """structural equality of abstract values"""
    if type(a) is not type(b):
        return False
    if isinstance(a, Num):
        return a.term == b.term
    if isinstance(a, BoolV):
        return a.b == b.b
    if isinstance(a, UnitV):
        return True
    if isinstance(a, StructV):
        return a.path.split('::')[-1] == b.path.split('::')[-1] and len(a.fields) == len(b.fields) and all(same(x, y) for x, y in zip(a.fields, b.fields))
    if isinstance(a, TupleV):
        return len(a.items) == len(b.items) and all(same(x, y) for x, y in zip(a.items, b.items))
    if isinstance(a, EnumV):
        if a.variant is None or b.variant is None:
            return a.variant is None and b.variant is None and a.name == b.name
        if a.variant != b.variant:
            return False
        pa, pb = a.payload.get(a.variant, []), b.payload.get(b.variant, [])
        if isinstance(pa, dict) or isinstance(pb, dict):
            return pa == pb
        return len(pa) == len(pb) and all(same(x, y) for x, y in zip(pa, pb))
    if isinstance(a, ContV):
        return a.kind == b.kind and a.term == b.term and a.len == b.len
    if isinstance(a, RefV):
        return a.cell == b.cell and a.proj == b.proj
    if isinstance(a, LazyV):
        return a.fields.keys() == b.fields.keys() and all(same(a.fields[k], b.fields[k]) for k in a.fields)
    if isinstance(a, Opaque):
        return a.tag == b.tag
    return a is b


def changed_fields(pre, post, prefix=''):
    """names of the (nested) fields of a struct that differ between two abstract values"""
    out = []
    if isinstance(pre, StructV) and isinstance(post, StructV) and pre.path.split('::')[-1] == post.path.split('::')[-1]:
        for n, x, y in zip(pre.names, pre.fields, post.fields):
            out += changed_fields(x, y, prefix + n + '.')
        pn = pre.path_names() if getattr(pre, 'paths', None) else None
        if pn:
            # state that lives inside a nested private struct is reported under its canonical name
            tr = []
            for c in out:
                rel = c[len(prefix):]
                hit = next((k for k in pn if rel == k or rel.startswith(k + '.')), None)
                tr.append(prefix + pn[hit] + rel[len(hit):] if hit is not None else c)
            out = tr
        return out
    if isinstance(pre, EnumV) and isinstance(post, EnumV) and pre.variant is not None and pre.variant == post.variant \
            and pre.path.startswith('core::option::Option'):
        # `Some(record)` on both sides: the record's fields are reported as if it were held directly
        pa, pb = pre.payload.get(pre.variant), post.payload.get(post.variant)
        if isinstance(pa, list) and isinstance(pb, list) and len(pa) == len(pb) == 1:
            return changed_fields(pa[0], pb[0], prefix)
    if not same(pre, post):
        out.append(prefix.rstrip('.'))
    return out


def spec_fields_changed(pre, post, spec_roots):
    """changed fields restricted to the fields the properties talk about (roots by top-level field name).  Fields added
    later (debug counters, caches) are not judged by write-set rules: they start unconstrained in every pre-state, so
    any influence they have on the specified fields is seen by the term rules."""
    return [c for c in changed_fields(pre, post) if c.split('.')[0] in spec_roots]


def run_method(it, st, path, self_val, args, genv=None):
    """call `path(&mut self, args...)`; returns (outcomes, cell_of_self)"""
    cell = st.new_cell(self_val)
    st2 = it.start(path, [receiver_arg(it, path, cell, self_val)] + list(args), genv=genv, state=st)
    outs = it.run(st2)
    return outs, cell


def receiver_arg(it, path, cell, self_val):
    """`&self` / `&mut self` methods get a reference to the cell; a method that takes a `Copy` receiver by value (`fn ramp(self)`)
    gets a copy of the value (the cell then simply stays as it was: a by-value receiver cannot change the caller's object)"""
    import copy as _copy
    f = it.facts.fns.get(it.facts.real('fn', path) if hasattr(it.facts, 'real') else path) or it.facts.fns.get(path)
    loc = (f or {}).get('locals') or []
    if f is not None and f.get('arg_count', 0) >= 1 and len(loc) > 1 and loc[1]['ty'].get('k') not in ('ref', 'ptr'):
        return _copy.deepcopy(self_val)
    return RefV(cell, (), True)


def where_of(facts, path):
    f = facts.fns.get(path)
    return f['span'] if f else path


def describe(v):
    return repr(v)


# Who judges a path that ends in a panic (explicit `panic!`, failed `debug_assert!`, `unwrap` on `None`/`Err`)?  "No operation
# panics" is the statement of C17 (and of the first clause of C06); the functional properties are stated about the calls that
# return.  Under policy 'skip' a rule neither blames nor uses a panicking path: the returning paths keep the negated panic
# condition as a fact, and the panic itself is an obligation of C17's R-PANIC (which runs with policy 'judge').
PANIC_POLICY = ['judge']
PANICS_LEFT_TO_C17 = [0]


class panic_policy:
    """context manager: who judges panicking paths inside this block ('judge' | 'skip')"""

    def __init__(self, mode):
        self.mode = mode

    def __enter__(self):
        self.saved = PANIC_POLICY[0]
        PANIC_POLICY[0] = self.mode

    def __exit__(self, *a):
        PANIC_POLICY[0] = self.saved


def sem_iter(outs, include_loopback=False):
    """iterate over outcomes with term equality interpreted under each outcome's own ranges and facts.
    Back-edge outcomes of the loop abstraction are not results of the function and are skipped by default."""
    from ..terms import set_sem
    try:
        for o in outs:
            if o.status in ('loopback', 'probe-exit') and not include_loopback:
                continue
            if o.status == 'panic' and PANIC_POLICY[0] == 'skip':
                PANICS_LEFT_TO_C17[0] += 1
                continue
            set_sem(o.ctx)
            yield o
    finally:
        set_sem(None)


class structural:
    """context manager: structural term equality (for nested interpreter runs inside a rule loop)"""

    def __enter__(self):
        from .. import terms
        self.saved = terms._SEM[0]
        terms._SEM[0] = None

    def __exit__(self, *a):
        from .. import terms
        terms._SEM[0] = self.saved
