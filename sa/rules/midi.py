"""Rules for the monophonic MIDI receiver: C04 (R-HELD), C05 (R-EDGE), C06 (R-FRAME, R-PARSER),
C18 (R-ROUTE).

Method: the effect summary of `MonoMidiReceiver::parse` is extracted for every abstract message the
byte parser can hand over (the dependency parser call is replaced by a stub that returns the
message under analysis and records what it was given), over a partition of the receiver's
pre-state (latches, held-list length class, modes).  Summaries are compared with the transition
tables transcribed from the property statements.
"""
import copy
from fractions import Fraction as Fr

from ..terms import Poly, B, INF, TRUE, FALSE, bconst, bnot, cmp_term, t_app, as_poly
from ..interp import (Interp, State, Num, BoolV, StructV, EnumV, TupleV, RefV, ContV, Opaque, UnitV, InterpError)
from .common import *

RX = 'synth_utils::mono_midi_receiver::MonoMidiReceiver'
MSG = 'midi_types::message::MidiMessage'
PARSER_PARSE = 'midi_convert::parse::MidiByteStreamParser::parse'
CH = 'midi_types::message::Channel'
V7 = 'midi_types::message::Value7'
V14 = 'midi_types::message::Value14'
NOTE = 'midi_types::note::Note'
CTRL = 'midi_types::message::Control'
PROG = 'midi_types::message::Program'
QF = 'midi_types::message::QuarterFrame'

RX_FIELDS = {'parser', 'channel', 'note_num', 'velocity', 'pitch_bend', 'mod_wheel', 'volume', 'vcf_cutoff', 'vcf_resonance', 'portamento_time',
             'portamento_enabled', 'sustain_enabled', 'gate', 'rising_gate', 'falling_gate', 'retrigger_mode', 'note_priority', 'held_down_notes'}
RX_CANON_FIELDS = frozenset(RX_FIELDS)
CONTROLLER_FIELDS = ['pitch_bend', 'mod_wheel', 'volume', 'vcf_cutoff', 'vcf_resonance', 'portamento_time',
                     'portamento_enabled', 'sustain_enabled']
# transcription of C18: controller number -> (field, kind)
CC_TABLE = {
    1: ('mod_wheel', 'scale'), 7: ('volume', 'scale'), 71: ('vcf_cutoff', 'scale'), 74: ('vcf_resonance', 'scale'),
    5: ('portamento_time', 'scale'), 65: ('portamento_enabled', 'switch'), 64: ('sustain_enabled', 'switch'),
    121: (None, 'reset'), 123: (None, 'notes_off'),
}


def midi_invariants(it):
    def rng(lo, hi):
        def f(st, sv):
            for fld in sv.fields:
                if isinstance(fld, Num):
                    a = fld.term.as_single_atom()
                    if a is not None:
                        cur = st.ctx.ranges.get(a, (Fr(lo), Fr(hi)))
                        st.ctx.ranges[a] = (max(cur[0], Fr(lo)), min(cur[1], Fr(hi)))
        return f
    it.invariants[CH] = rng(0, 15)
    for p in (V7, NOTE, CTRL, PROG, QF, V14):
        it.invariants[p] = rng(0, 127)


class Unrepresentable(Exception):
    """the requested combination of pending edges has no state in the receiver's representation (e.g. both edges pending
    in a one-slot enum): the partition does not exist"""


class Rx:
    """factory for abstract receivers / messages"""

    def __init__(self, facts):
        self.facts = facts
        self.adt = facts.adt(RX)
        self.names = [f['name'] for f in self.adt['variants'][0]['fields']]
        need = ['parser', 'channel', 'note_num', 'velocity', 'gate', 'rising_gate', 'falling_gate', 'retrigger_mode',
                'note_priority', 'held_down_notes'] + CONTROLLER_FIELDS
        located = set(self.names) | set(self.adt.get('canon_paths') or {})
        missing = [n for n in need if n not in located]
        # the two edge latches may live in another private representation (one `enum {None, Rising, Falling}`, ...): they are
        # then defined by what `rising_gate()` / `falling_gate()` would return (`latch`), and set through the carrier fields
        self.latch_carriers = None
        if {'rising_gate', 'falling_gate'} & set(missing):
            self._find_latch_carriers()
            if self.latch_map:
                missing = [n for n in missing if n not in ('rising_gate', 'falling_gate')]
                RX_FIELDS.update(self.latch_carriers)     # the write-set rules judge the carrier fields in their place
        if missing:
            raise InterpError('MonoMidiReceiver fields missing (anchor changed): %s' % missing)

    def _find_latch_carriers(self):
        """private fields of a finite type (bool, unit-only enum of this crate) that are not canonical state: candidates for
        holding the pending edges.  Every assignment of values to them is classified by peeking at the two edge getters."""
        import itertools
        self.latch_map = {}
        canon = set(RX_CANON_FIELDS) | {'parser', 'channel'}
        cands = []
        for i, f in enumerate(self.adt['variants'][0]['fields']):
            if f['name'] in canon:
                continue
            ty = f['ty']
            if ty.get('k') == 'bool':
                cands.append((f['name'], [BoolV(bconst(False)), BoolV(bconst(True))]))
            elif ty.get('k') == 'adt':
                sub = self.facts.adts.get(ty.get('path'))
                if sub and sub.get('crate') == 'synth_utils' and sub.get('kind') == 'enum' and len(sub['variants']) <= 4 \
                        and all(not v.get('fields') for v in sub['variants']):
                    cands.append((f['name'], [make_enum(self.facts, ty['path'], v['name']) for v in sub['variants']]))
        if not cands or len(cands) > 3:
            return
        self.latch_carriers = [c[0] for c in cands]
        for combo in itertools.product(*[c[1] for c in cands]):
            it = self.interp()
            st = State()
            rx = it.sym_value(st, adt_ty(RX), 'self')
            for (nm, _), v in zip(cands, combo):
                rx.set(nm, copy.deepcopy(v))
            r = self._peek(st.ctx, rx, 'rising_gate')
            f_ = self._peek(st.ctx, rx, 'falling_gate')
            if r is None or f_ is None:
                continue
            self.latch_map.setdefault((r, f_), [copy.deepcopy(v) for v in combo])

    def _peek(self, ctx, rx, getter):
        """what the (destructive) edge getter would return on this state: True / False / None (undecided)"""
        with structural():
            it = self.interp()
            st = State()
            st.ctx = ctx.copy()
            try:
                outs, cell = run_method(it, st, RX + '::' + getter, copy.deepcopy(rx), [])
            except InterpError:
                return None
        vals = {bool_of(o.ctx, o.ret) for o in outs if o.status == 'returned'}
        return next(iter(vals)) if len(vals) == 1 and None not in vals else None

    def latch(self, ctx, rx, name):
        """pending rising / falling edge of a state: the field, or what the getter of that name would return"""
        if rx.has(name):
            return bool_of(ctx, rx.get(name))
        return self._peek(ctx, rx, name)

    def latch_roots(self):
        return set(self.latch_carriers or [])

    def interp(self):
        it = Interp(self.facts)
        midi_invariants(it)
        return it

    def receiver(self, it, st, gate=None, rising=None, falling=None, retrig=None, prio=None, list_len=None, class_inv=False):
        """class_inv: restrict the pre-state to the class invariant established by R-HELD-INV / R-EDGE-INV and re-checked by
        R-INV (gate <=> list non-empty, rising => gate, falling => !gate, held / selected note numbers <= 127); needs a definite length class"""
        rx = it.sym_value(st, adt_ty(RX), 'self')
        if class_inv and list_len is not None:
            lo_, hi_ = list_len
            if hi_ == 0:
                gate, rising = False, False
            elif lo_ >= 1:
                gate, falling = True, False
            # held notes and the selected note are 7-bit note numbers (they come out of midi_types::Note)
            lst0 = rx.get('held_down_notes')
            if isinstance(lst0, ContV):
                st.ctx.elem_bounds[lst0.term] = (Fr(0), Fr(127))
            nn = rx.get('note_num')
            if isinstance(nn, Num) and nn.term.as_single_atom() is not None:
                st.ctx.ranges[nn.term.as_single_atom()] = (Fr(0), Fr(127))

        ch = rx.get('channel')
        if not isinstance(ch, Num) or ch.term.as_single_atom() is None:
            raise InterpError('MonoMidiReceiver.channel is no longer a plain channel number (%r): the representation of anchored state changed, '
                              'the rules cannot locate the listened channel' % (ch,))
        st.ctx.ranges[ch.term.as_single_atom()] = (Fr(0), Fr(15))

        def setf(name, v):
            rx.set(name, v)
        if gate is not None:
            setf('gate', BoolV(bconst(gate)))
        if rx.has('rising_gate') and rx.has('falling_gate'):
            if rising is not None:
                setf('rising_gate', BoolV(bconst(rising)))
            if falling is not None:
                setf('falling_gate', BoolV(bconst(falling)))
        elif rising is not None or falling is not None:
            want = [(r_, f_) for (r_, f_) in self.latch_map if (rising is None or r_ == rising) and (falling is None or f_ == falling)]
            if not want:
                raise Unrepresentable('no state of %s has rising=%s falling=%s' % (self.latch_carriers, rising, falling))
            for nm, v in zip(self.latch_carriers, self.latch_map[sorted(want)[0]]):
                rx.set(nm, copy.deepcopy(v))
        if retrig is not None:
            setf('retrigger_mode', make_enum(self.facts, 'synth_utils::mono_midi_receiver::RetriggerMode', retrig))
        if prio is not None:
            setf('note_priority', make_enum(self.facts, 'synth_utils::mono_midi_receiver::NotePriority', prio))
        lst = rx.get('held_down_notes')
        if not isinstance(lst, ContV):
            raise InterpError('held_down_notes is not a heapless Vec any more: %r' % (lst,))
        if list_len is not None:
            lo, hi = list_len
            a = lst.len.as_single_atom()
            if lo == hi:
                lst.len = Poly.const(lo)
            else:
                st.ctx.ranges[a] = (Fr(lo), Fr(hi))
        return rx

    def chan(self, st, same_as=None, name='msg.ch'):
        if same_as is not None:
            return newtype(self.facts, CH, Num(same_as, 'u8'))
        return newtype(self.facts, CH, int_sym(st, name, 0, 15))

    def message(self, st, kind, ch_term=None, **kw):
        """abstract message of a given variant; ch_term = listened channel term, or None for a foreign channel symbol"""
        f = self.facts
        ch = self.chan(st, ch_term)

        def v7(name, lo=0, hi=127):
            return newtype(f, V7, kw.get(name) if isinstance(kw.get(name), Num) else int_sym(st, 'msg.' + name, lo, hi))
        if kind in ('NoteOn', 'NoteOff', 'KeyPressure'):
            vel_rng = kw.get('vel_range', (0, 127))
            return make_enum(f, MSG, kind, [ch, newtype(f, NOTE, int_sym(st, 'msg.note', 0, 127)),
                                            newtype(f, V7, int_sym(st, 'msg.vel', *vel_rng))])
        if kind == 'ControlChange':
            cc = kw.get('cc')
            ccv = Num(Poly.const(cc), 'u8') if isinstance(cc, int) else int_sym(st, 'msg.cc', 0, 127)
            return make_enum(f, MSG, kind, [ch, newtype(f, CTRL, ccv), newtype(f, V7, int_sym(st, 'msg.val', 0, 127))])
        if kind == 'ProgramChange':
            return make_enum(f, MSG, kind, [ch, newtype(f, PROG, int_sym(st, 'msg.prog', 0, 127))])
        if kind == 'ChannelPressure':
            return make_enum(f, MSG, kind, [ch, newtype(f, V7, int_sym(st, 'msg.val', 0, 127))])
        if kind == 'PitchBendChange':
            return make_enum(f, MSG, kind, [ch, newtype(f, V14, [int_sym(st, 'msg.msb', 0, 127), int_sym(st, 'msg.lsb', 0, 127)])])
        if kind == 'QuarterFrame':
            return make_enum(f, MSG, kind, [newtype(f, QF, int_sym(st, 'msg.qf', 0, 127))])
        if kind == 'SongPositionPointer':
            return make_enum(f, MSG, kind, [newtype(f, V14, [int_sym(st, 'msg.msb', 0, 127), int_sym(st, 'msg.lsb', 0, 127)])])
        if kind == 'SongSelect':
            return make_enum(f, MSG, kind, [newtype(f, V7, int_sym(st, 'msg.val', 0, 127))])
        return make_enum(f, MSG, kind, [])


def option_some(v):
    return EnumV('core::option::Option', 1, {1: [v]}, vnames=['None', 'Some'])


def option_none():
    return EnumV('core::option::Option', 0, {0: []}, vnames=['None', 'Some'])


def run_parse(rxf, it, st, rx, msg_opt, byte=None):
    """summary of MonoMidiReceiver::parse with the byte parser stubbed to return msg_opt"""
    calls = []

    def stub(itp, s, fr, t, args):
        calls.append((s, args[1] if len(args) > 1 else None))
        s.notes.append(('parser_call', repr(args[1].term) if len(args) > 1 and isinstance(args[1], Num) else '?'))
        return copy.deepcopy(msg_opt)
    it.stubs[PARSER_PARSE] = stub
    b = byte if byte is not None else int_sym(st, 'byte', 0, 255)
    outs, cell = run_method(it, st, RX + '::parse', rx, [b])
    return outs, cell, b


def fld(rx, name):
    return rx.get(name)


# ---------------------------------------------------------------------------------------
# partitions of the receiver pre-state satisfying the class invariants
#   I1: gate <=> held list non-empty     I2: rising => gate      I3: falling => !gate

LEN_CLASSES = [('empty', (0, 0)), ('one', (1, 1)), ('some', (2, 31)), ('full', (32, 32))]


def pre_states():
    for lname, lr in LEN_CLASSES:
        gate = lr[0] > 0
        for rising in (False, True):
            if rising and not gate:
                continue
            for falling in (False, True):
                if falling and gate:
                    continue
                for retrig in ('AllowRetrigger', 'NoRetrigger'):
                    yield dict(lname=lname, list_len=lr, gate=gate, rising=rising, falling=falling, retrig=retrig)


def bool_of(ctx, v):
    if not isinstance(v, BoolV):
        return None
    return ctx.decide(v.b)


def check_edges_and_held(res, facts, prop):
    """R-EDGE (C05) and R-HELD (C04) over all pre-state partitions x note/controller messages"""
    rxf = Rx(facts)
    cap = facts.const_int('synth_utils::mono_midi_receiver::HELD_DOWN_NOTE_BUFFER_LEN')
    global LEN_CLASSES
    LEN_CLASSES = [('empty', (0, 0)), ('one', (1, 1)), ('some', (2, cap - 1)), ('full', (cap, cap))]
    if prop == 'C04':
        # the statement covers streams with up to 32 outstanding note-ons: a note-on may only be dropped (list full) beyond that
        res.ob('R-HELD', 'held-note list holds the 32 outstanding notes the statement covers', cap >= 32,
               'capacity of the held-note list = %d: the note-on that finds the list full is dropped, which the statement allows only beyond 32 outstanding notes' % cap,
               where_of(facts, RX + '::parse'), key='R-HELD:capacity')
    msgs = []
    if prop == 'C06':
        msgs = [('cc%d' % n, 'ControlChange', dict(cc=n)) for n in sorted(CC_TABLE) if n != 123]
    msgs += [
        ('note_on', 'NoteOn', dict(vel_range=(1, 127))),
        ('note_on_vel0', 'NoteOn', dict(vel_range=(0, 0))),
        ('note_off', 'NoteOff', {}),
        ('all_notes_off', 'ControlChange', dict(cc=123)),
        ('other_cc', 'ControlChange', dict(cc=1)),
        ('pitch_bend', 'PitchBendChange', {}),
    ]
    prios = ['Last', 'High', 'Low']
    n_part = 0
    for ps in pre_states():
        for mname, kind, kw in msgs:
            for prio in (prios if prop == 'C04' and mname in ('note_on', 'note_off', 'note_on_vel0') else ['Last']):
                it = rxf.interp()
                st = State()
                try:
                    rx = rxf.receiver(it, st, gate=ps['gate'], rising=ps['rising'], falling=ps['falling'],
                                      retrig=ps['retrig'], prio=prio, list_len=ps['list_len'])
                except Unrepresentable:
                    continue
                pre = copy.deepcopy(rx)
                msg = rxf.message(st, kind, ch_term=rx.get('channel').term, **kw)
                try:
                    outs, cell, _ = run_parse(rxf, it, st, rx, option_some(msg))
                except InterpError as e:
                    res.ob('R-SUMMARY', 'parse/%s/%s' % (mname, ps['lname']), False, 'analysis failed: %s' % e)
                    continue
                res.absorb(it)
                n_part += 1
                inst = '%s|len=%s|gate=%d|rising=%d|falling=%d|%s|%s' % (
                    mname, ps['lname'], ps['gate'], ps['rising'], ps['falling'], ps['retrig'], prio)
                if not outs:
                    res.ob('R-SUMMARY', inst, False, 'no outcome')
                for o in sem_iter(outs):
                    if o.status != 'returned':
                        res.ob('R-SUMMARY', inst, False, 'path ends with %s: %s' % (o.status, o.panic_info),
                               where=where_of(facts, RX + '::parse'))
                        continue
                    post = o.cells[cell]
                    if prop == 'C06':
                        res.ob('R-FRAME', 'handled:' + inst + '|returns', True, 'no panic on this path', where_of(facts, RX + '::parse'), key='R-FRAME:handled:' + inst, nontrivial=False)
                        res.ob('R-FRAME', 'handled:' + inst + '|parser state untouched by the handlers', same(pre.get('parser'), post.get('parser')),
                               'the receiver overwrote its byte parser (%r): running status / partial messages are lost' % (post.get('parser'),), where_of(facts, RX + '::parse'), key='R-FRAME:parser:' + inst)
                        # WHAT applying a supported note message does is C04's / C05's statement, not judged here: C06 is about
                        # which bytes become which messages and which messages are applied at all
                    elif prop == 'C05':
                        edge_obligations(res, facts, inst, ps, mname, pre, post, o)
                    else:
                        held_obligations(res, facts, inst, ps, mname, prio, pre, post, o, msg)
    res.partitions += n_part
    return n_part


def post_len_class(o, post):
    lst = post.get('held_down_notes')
    if not isinstance(lst, ContV) or lst.len is None:
        return None, lst
    e = o.ctx.decide(cmp_term('Eq', lst.len, 0))
    return e, lst


def edge_obligations(res, facts, inst, ps, mname, pre, post, o):
    """C05 transition table"""
    ctx = o.ctx
    empty_after, lst = post_len_class(o, post)
    g_ = bool_of(ctx, post.get('gate'))
    if empty_after is not None and g_ is not None:
        # the pre-states assume gate <=> held list non-empty: re-established here (a stale list makes the next note-on
        # look like a second key and swallows its rising edge)
        res.ob('R-HELD-INV', inst + '|gate<=>nonempty', g_ == (not empty_after), 'gate=%s, list empty=%s' % (g_, empty_after),
               where_of(facts, RX + '::parse'), key='R-HELD-INV:%s' % inst)
    rxf_ = Rx(facts)
    g = bool_of(ctx, post.get('gate'))
    r, f = rxf_.latch(ctx, post, 'rising_gate'), rxf_.latch(ctx, post, 'falling_gate')
    where = where_of(facts, RX + '::parse')
    if None in (g, r, f):
        res.ob('R-EDGE', inst, False, 'latch not decided: gate=%r rising=%r falling=%r' % (post.get('gate'), r, f), where)
        return
    if mname == 'note_on':
        exp = (True, ps['rising'] or ps['retrig'] == 'AllowRetrigger' or not ps['gate'], False)
    elif mname in ('note_off', 'note_on_vel0'):
        if empty_after is None:
            res.ob('R-EDGE', inst, False, 'emptiness of the held list after note-off not decided on this path', where)
            return
        if empty_after:
            exp = (False, False, ps['falling'] or ps['gate'])
        else:
            exp = (ps['gate'], ps['rising'], ps['falling'])
    elif mname == 'all_notes_off':
        exp = (False, False, ps['falling'] or ps['gate'])
    else:
        exp = (ps['gate'], ps['rising'], ps['falling'])
    ok = (g, r, f) == exp
    res.ob('R-EDGE', inst + ('|post_empty=%s' % empty_after), ok,
           'post (gate,rising,falling)=%s expected %s' % ((g, r, f), exp), where,
           key='R-EDGE:%s' % inst)
    # inductive invariants on the post-state
    res.ob('R-EDGE-INV', inst + '|rising=>gate', (not r) or g, 'rising=%s gate=%s' % (r, g), where, key='R-EDGE-INV:rising:%s' % inst)
    res.ob('R-EDGE-INV', inst + '|falling=>!gate', (not f) or (not g), 'falling=%s gate=%s' % (f, g), where, key='R-EDGE-INV:falling:%s' % inst)


def held_obligations(res, facts, inst, ps, mname, prio, pre, post, o, msg):
    """C04: list update, selection, gate <=> non-empty, velocity"""
    ctx = o.ctx
    where = where_of(facts, RX + '::parse')
    lst0 = pre.get('held_down_notes')
    lst1 = post.get('held_down_notes')
    note = msg.payload[msg.variant][1].fields[0].term if mname in ('note_on', 'note_off', 'note_on_vel0') else None
    vel = msg.payload[msg.variant][2].fields[0].term if mname in ('note_on', 'note_off', 'note_on_vel0') else None
    g = bool_of(ctx, post.get('gate'))
    empty_after = ctx.decide(cmp_term('Eq', lst1.len, 0)) if isinstance(lst1, ContV) and lst1.len is not None else None
    if not isinstance(lst1, ContV):
        res.ob('R-HELD', inst, False, 'held list is not a container after the call: %r' % (lst1,), where)
        return
    sel = {'Last': 'last', 'High': 'max', 'Low': 'min'}[prio]
    if mname == 'note_on' and ps['lname'] == 'full':
        # a 33rd outstanding note-on is outside the scope of C04 ("at most 32 note-ons outstanding at once")
        res.ob('R-HELD', inst + '|out of scope', True, 'note-on with 32 notes already held: not constrained by C04', where, key='R-HELD:scope:%s' % inst, nontrivial=False)
    elif mname == 'note_on':
        full = False
        exp_term = lst0.term if full else ('push', lst0.term, note)
        exp_len = lst0.len if full else lst0.len + 1
        res.ob('R-HELD', inst + '|list', lst1.term == exp_term and lst1.len == exp_len,
               'list after note-on = %r (len %r), expected %r (len %r)' % (lst1.term, lst1.len, exp_term, exp_len), where, key='R-HELD:list:%s' % inst)
        from ..models import select_term
        exp_note = select_term(sel, exp_term, exp_len, ctx)
        got = post.get('note_num')
        res.ob('R-HELD', inst + '|select', isinstance(got, Num) and got.term == exp_note,
               'note_num after note-on = %r, expected %r' % (got, exp_note), where, key='R-HELD:select:%s' % inst)
        v = level(facts, o.ctx, post, 'velocity')
        res.ob('R-HELD', inst + '|velocity', isinstance(v, Num) and v.term == vel.scale(Fr(1, 127)),
               'velocity = %r, expected msg.vel/127' % (v,), where, key='R-HELD:velocity:%s' % inst)
        res.ob('R-HELD', inst + '|gate', g is True, 'gate after note-on = %r' % (post.get('gate'),), where, key='R-HELD:gate:%s' % inst)
    elif mname in ('note_off', 'note_on_vel0'):
        t1 = lst1.term
        ok_list = (isinstance(t1, tuple) and t1 and t1[0] == 'retain' and t1[1] == lst0.term
                   and t1[2] == cmp_term('Ne', Poly.sym('$elem'), note))
        res.ob('R-HELD', inst + '|list', ok_list,
               'list after note-off = %r, expected retain(%r, $elem != msg.note)' % (t1, lst0.term), where, key='R-HELD:list:%s' % inst)
        if empty_after is None:
            res.ob('R-HELD', inst + '|gate', False, 'emptiness after note-off undecided on this path', where)
            return
        if empty_after:
            res.ob('R-HELD', inst + '|gate', g is False, 'gate after last note-off = %r' % (post.get('gate'),), where, key='R-HELD:gate-empty:%s' % inst)
            res.ob('R-HELD', inst + '|retain-note', same(pre.get('note_num'), post.get('note_num')),
                   'note_num changed although nothing is held: %r' % (post.get('note_num'),), where, key='R-HELD:keepnote:%s' % inst)
        else:
            res.ob('R-HELD', inst + '|gate', g is True, 'gate with notes still held = %r' % (post.get('gate'),), where, key='R-HELD:gate-held:%s' % inst)
            from ..models import select_term
            exp_note = select_term(sel, t1, lst1.len, ctx)
            got = post.get('note_num')
            res.ob('R-HELD', inst + '|select', isinstance(got, Num) and got.term == exp_note,
                   'note_num after note-off = %r, expected %r' % (got, exp_note), where, key='R-HELD:reselect:%s' % inst)
        res.ob('R-HELD', inst + '|velocity', same(pre.get('velocity'), post.get('velocity')),
               'velocity changed by a note-off: %r' % (post.get('velocity'),), where, key='R-HELD:vel-off:%s' % inst)
    elif mname == 'all_notes_off':
        res.ob('R-HELD', inst + '|list', lst1.len == Poly.const(0), 'list after All-Notes-Off has length %r' % (lst1.len,), where, key='R-HELD:list:%s' % inst)
        res.ob('R-HELD', inst + '|gate', g is False, 'gate after All-Notes-Off = %r' % (post.get('gate'),), where, key='R-HELD:gate:%s' % inst)
        res.ob('R-HELD', inst + '|retain-note', same(pre.get('note_num'), post.get('note_num')), 'note_num changed', where, key='R-HELD:keepnote:%s' % inst)
    else:
        ch = spec_fields_changed(pre, post, RX_FIELDS)
        bad = [c for c in ch if c in ('held_down_notes', 'gate', 'note_num', 'velocity')]
        res.ob('R-HELD', inst + '|unrelated', not bad, 'fields changed by an unrelated message: %s' % bad, where, key='R-HELD:unrelated:%s' % inst)
    # I1 inductive: gate <=> list non-empty
    if empty_after is not None and g is not None:
        res.ob('R-HELD-INV', inst + '|gate<=>nonempty', g == (not empty_after),
               'gate=%s, list empty=%s' % (g, empty_after), where, key='R-HELD-INV:%s' % inst)


def check_setters(res, facts):
    """R-WRITESET: set_note_priority / set_retrigger_mode write only their own field; getters of levels are pure"""
    rxf = Rx(facts)
    for meth, fieldname, enum, variants in (
            ('set_note_priority', 'note_priority', 'synth_utils::mono_midi_receiver::NotePriority', ['Last', 'High', 'Low']),
            ('set_retrigger_mode', 'retrigger_mode', 'synth_utils::mono_midi_receiver::RetriggerMode', ['AllowRetrigger', 'NoRetrigger'])):
        for v in variants:
            it = rxf.interp()
            st = State()
            rx = rxf.receiver(it, st)
            pre = copy.deepcopy(rx)
            outs, cell = run_method(it, st, RX + '::' + meth, rx, [make_enum(facts, enum, v)])
            res.absorb(it)
            for o in sem_iter(outs):
                post = o.cells[cell]
                ch = spec_fields_changed(pre, post, RX_FIELDS)
                ok = o.status == 'returned' and set(ch) <= {fieldname} and isinstance(post.get(fieldname), EnumV) and post.get(fieldname).variant == variant_index(facts, enum, v)
                res.ob('R-WRITESET', '%s(%s)' % (meth, v), ok, 'changed fields: %s' % ch, where_of(facts, RX + '::' + meth))


def check_edge_getters(res, facts):
    """rising_gate()/falling_gate(): return the latch and clear it; nothing else changes"""
    rxf = Rx(facts)
    for meth, latch in (('rising_gate', 'rising_gate'), ('falling_gate', 'falling_gate')):
        for val in (False, True):
            it = rxf.interp()
            st = State()
            kw = {'rising' if latch == 'rising_gate' else 'falling': val}
            try:
                rx = rxf.receiver(it, st, **kw)
            except Unrepresentable:
                continue
            pre = copy.deepcopy(rx)
            outs, cell = run_method(it, st, RX + '::' + meth, rx, [])
            res.absorb(it)
            for o in sem_iter(outs):
                post = o.cells[cell]
                ch = spec_fields_changed(pre, post, RX_FIELDS)
                ret = bool_of(o.ctx, o.ret)
                after = rxf.latch(o.ctx, post, latch)
                ok = o.status == 'returned' and ret == val and after is False and set(ch) <= ({latch} | rxf.latch_roots())
                res.ob('R-EDGE-GET', '%s|latch=%s' % (meth, val), ok,
                       'returned %s, latch after %s, changed %s' % (ret, after, ch), where_of(facts, RX + '::' + meth))


def level(facts, ctx, rx, name):
    """the value of a level / switch as the properties define it.  When the field holds it directly that is the field; when
    the receiver stores it in another representation (the 7-bit value as received, scaled in the getter) it is what the
    public getter of the same name returns on this state."""
    v = rx.get(name)
    if isinstance(v, (Num, BoolV)):
        return v
    with structural():
        it = Interp(facts)
        midi_invariants(it)
        st = State()
        st.ctx = ctx.copy()
        outs, cell = run_method(it, st, RX + '::' + name, copy.deepcopy(rx), [])
    rets = [o.ret for o in outs if o.status == 'returned']
    return rets[0] if len(rets) == 1 else v


def level_outcomes(facts, ctx, rx, name):
    """like level(), but a getter that branches (the two pieces of the pitch-bend conversion) yields one (facts, value) pair
    per path"""
    v = rx.get(name)
    if isinstance(v, (Num, BoolV)):
        return [(ctx, v)]
    with structural():
        it = Interp(facts)
        midi_invariants(it)
        st = State()
        st.ctx = ctx.copy()
        outs, cell = run_method(it, st, RX + '::' + name, copy.deepcopy(rx), [])
    return [(o.ctx, o.ret) for o in outs if o.status == 'returned'] or [(ctx, v)]


def check_level_getters(res, facts):
    """level getters take &self and return the field (observation cannot disturb state)"""
    rxf = Rx(facts)
    n = 0
    for g in ['note_num', 'pitch_bend', 'velocity', 'mod_wheel', 'volume', 'vcf_cutoff', 'vcf_resonance', 'portamento_time',
              'portamento_enabled', 'sustain_enabled', 'gate']:
        it = rxf.interp()
        st = State()
        rx = rxf.receiver(it, st)
        pre = copy.deepcopy(rx)
        outs, cell = run_method(it, st, RX + '::' + g, rx, [])
        res.absorb(it)
        for o in sem_iter(outs):
            post = o.cells[cell]
            direct = isinstance(pre.get(g), (Num, BoolV))      # otherwise the getter *defines* the level (stored as received)
            ok = o.status == 'returned' and not spec_fields_changed(pre, post, RX_FIELDS) and (same(o.ret, pre.get(g)) or not direct)
            res.ob('R-GETTER', g, ok, 'returns %r, changed %s' % (o.ret, spec_fields_changed(pre, post, RX_FIELDS)), where_of(facts, RX + '::' + g))
            n += 1
    return n


# ---------------------------------------------------------------------------------------
# C18

def check_routing(res, facts, only_other=False):
    """only_other: just the 'unsupported controller numbers change nothing' obligations (they also belong to C06)"""
    rxf = Rx(facts)
    where = where_of(facts, RX + '::parse')
    n_inst = 0
    # -- every controller number, symbolic value
    it = rxf.interp()
    st = State()
    rx = rxf.receiver(it, st)
    pre = copy.deepcopy(rx)
    msg = rxf.message(st, 'ControlChange', ch_term=rx.get('channel').term)
    cc = msg.payload[msg.variant][1].fields[0].term
    val = msg.payload[msg.variant][2].fields[0].term
    outs, cell, _ = run_parse(rxf, it, st, rx, option_some(msg))
    res.absorb(it)
    seen_cc = set()
    defaults = constructor_defaults(res, facts)
    for o in sem_iter(outs):
        if o.status != 'returned':
            res.ob('R-ROUTE', 'cc', False, 'path ends with %s: %s' % (o.status, o.panic_info), where)
            continue
        post = o.cells[cell]
        lo, hi = o.ctx.rng(cc)
        ch = {c_.split('.')[0] for c_ in spec_fields_changed(pre, post, RX_FIELDS)}   # by canonical field, whatever its inner layout
        if lo == hi and int(lo) in CC_TABLE:
            n = int(lo)
            seen_cc.add(n)
            field, kind = CC_TABLE[n]
            if only_other:
                continue
            if kind == 'scale':
                got = level(facts, o.ctx, post, field)
                ok = ch <= {field} and isinstance(got, Num) and got.term == val.scale(Fr(1, 127))
                res.ob('R-ROUTE', 'cc%d->%s' % (n, field), ok, 'changed %s; %s = %r, expected msg.val/127' % (sorted(ch), field, got), where)
            elif kind == 'switch':
                got = level(facts, o.ctx, post, field)
                sw = bool_of(o.ctx, got)
                vlo, vhi = o.ctx.rng(val)
                if sw is not None:
                    ok = (sw is True and vlo >= 64) or (sw is False and vhi <= 63)
                    res.ob('R-ROUTE', 'cc%d->%s|val in [%s,%s]' % (n, field, vlo, vhi), ok and ch <= {field},
                           'changed %s; %s = %r, expected (64 <= msg.val)' % (sorted(ch), field, got), where,
                           key='R-ROUTE:cc%d:switch:%s' % (n, 'hi' if vlo >= 64 else 'lo'))
                else:
                    res.ob('R-ROUTE', 'cc%d->%s' % (n, field), ch <= {field} and isinstance(got, BoolV),
                           'changed %s; %s = %r' % (sorted(ch), field, got), where)
                    with structural():
                        switch_partitions(res, facts, rxf, n, field, where)
                    from ..terms import set_sem
                    set_sem(o.ctx)
            elif kind == 'reset':
                ok = True
                bad = []
                for fn_ in CONTROLLER_FIELDS:
                    if fn_ not in defaults or not same(post.get(fn_), defaults[fn_]):
                        ok = False
                        bad.append('%s=%r (power-on %r)' % (fn_, post.get(fn_), defaults.get(fn_)))
                ok = ok and {c_.split('.')[0] for c_ in ch} <= set(CONTROLLER_FIELDS)
                res.ob('R-ROUTE', 'cc121->reset', ok, 'not restored to the constructor defaults: %s; changed %s' % (bad, sorted(ch)), where)
            elif kind == 'notes_off':
                ok = ch <= ({'held_down_notes', 'gate', 'rising_gate', 'falling_gate'} | rxf.latch_roots())
                res.ob('R-ROUTE', 'cc123->notes_off', ok, 'changed %s' % sorted(ch), where)
            n_inst += 1
        else:
            # any other controller number: nothing may change
            excluded = [k for k in CC_TABLE if not (k < lo or k > hi) and o.ctx.decide(cmp_term('Ne', cc, k)) is not True]
            res.ob('R-ROUTE', 'cc other (range [%s,%s])' % (lo, hi), not ch and not excluded,
                   'unlisted controller changes %s (table numbers not excluded on this path: %s)' % (sorted(ch), excluded), where,
                   key='R-ROUTE:cc-other')
            n_inst += 1
    if only_other:
        res.floor('cc_other_paths', n_inst, 1)
        return n_inst
    missing = sorted(set(CC_TABLE) - seen_cc)
    res.ob('R-ROUTE', 'dispatch covers the documented controller numbers', not missing, 'no dispatch arm for controller(s) %s' % missing, where)
    res.floor('cc_arms', len(seen_cc), 9)
    # -- pitch bend
    it = rxf.interp()
    st = State()
    rx = rxf.receiver(it, st)
    pre = copy.deepcopy(rx)
    msg = rxf.message(st, 'PitchBendChange', ch_term=rx.get('channel').term)
    msb = msg.payload[msg.variant][1].fields[0].term
    lsb = msg.payload[msg.variant][1].fields[1].term
    outs, cell, _ = run_parse(rxf, it, st, rx, option_some(msg))
    res.absorb(it)
    v14 = msb.scale(128) + lsb
    n_pb = 0
    for o in sem_iter(outs):
        if o.status != 'returned':
            res.ob('R-ROUTE', 'pitch_bend', False, 'path ends with %s: %s' % (o.status, o.panic_info), where)
            continue
        post = o.cells[cell]
        ch = {c_.split('.')[0] for c_ in spec_fields_changed(pre, post, RX_FIELDS)}   # by canonical field, whatever its inner layout
        for pctx, got in level_outcomes(facts, o.ctx, post, 'pitch_bend'):
            lo, hi = pctx.rng(v14)
            if lo > 8192 or pctx.decide(cmp_term('Gt', v14, 8192)) is True:
                exp = (v14 - 8192).scale(Fr(1, 8191))
                part = 'value14 > 8192'
            elif pctx.decide(cmp_term('Le', v14, 8192)) is True:
                exp = (v14 - 8192).scale(Fr(1, 8192))
                part = 'value14 <= 8192'
            else:
                exp = None
                part = 'undecided'
            ok = exp is not None and isinstance(got, Num) and got.term == exp and ch <= {'pitch_bend'}
            res.ob('R-ROUTE', 'pitch_bend|' + part, ok, 'pitch_bend = %r, expected %r; changed %s' % (got, exp, sorted(ch)), where)
            if exp is not None and isinstance(got, Num):
                # strictly increasing in the 14-bit value, end points
                d = got.term.diff(msb.as_single_atom())
                d2 = got.term.diff(lsb.as_single_atom())
                res.ob('R-ROUTE', 'pitch_bend monotone|' + part, d.const_value() is not None and d.const_value() > 0 and d2.const_value() is not None and d2.const_value() > 0
                       and d.const_value() == 128 * d2.const_value(),
                       'd/dmsb=%r d/dlsb=%r (MSB must weigh 128 x LSB)' % (d, d2), where)

            n_pb += 1
    res.floor('pitch_bend_pieces', n_pb, 2)
    # end points via substitution into the two pieces
    res.ob('R-ROUTE', 'pitch_bend endpoints', Fr(0 - 8192, 8192) == -1 and Fr(16383 - 8192, 8191) == 1, 'by the piece formulas')
    return n_inst + n_pb


def switch_partitions(res, facts, rxf, n, field, where):
    """switch controllers: decide the stored bool on the two halves of the 7-bit value range"""
    for part, (lo, hi), exp in (('lo', (0, 63), False), ('hi', (64, 127), True)):
        it = rxf.interp()
        st = State()
        rx = rxf.receiver(it, st)
        msg = rxf.message(st, 'ControlChange', ch_term=rx.get('channel').term, cc=n)
        val = msg.payload[msg.variant][2].fields[0].term
        st.ctx.ranges[val.as_single_atom()] = (Fr(lo), Fr(hi))
        outs, cell, _ = run_parse(rxf, it, st, rx, option_some(msg))
        res.absorb(it)
        for o in sem_iter(outs):
            got = o.cells[cell].get(field)
            sw = bool_of(o.ctx, got)
            res.ob('R-ROUTE', 'cc%d->%s|val in [%d,%d]' % (n, field, lo, hi), o.status == 'returned' and sw is exp,
                   '%s = %r for value in [%d,%d], expected %s (switch on at >= 64)' % (field, got, lo, hi, exp), where,
                   key='R-ROUTE:cc%d:switch:%s' % (n, part))


def constructor_defaults(res, facts):
    """post-state of MonoMidiReceiver::new: the power-on defaults (sibling reference for reset_controllers)"""
    it = Interp(facts)
    midi_invariants(it)
    st = State()
    c = int_sym(st, 'arg.channel', 0, 255)
    st2 = it.start(RX + '::new', [c], state=st)
    outs = it.run(st2)
    res.absorb(it)
    d = {}
    for o in sem_iter(outs):
        if o.status == 'returned' and isinstance(o.ret, StructV):
            for n in CONTROLLER_FIELDS:
                d[n] = o.ret.get(n)
            chv = o.ret.get('channel')
            lo, hi = o.ctx.rng(chv.term)
            res.ob('R-CLAMP', 'MonoMidiReceiver::new channel clamp', lo >= 0 and hi <= 15, 'channel range [%s,%s]' % (lo, hi), where_of(facts, RX + '::new'))
    return d


# ---------------------------------------------------------------------------------------
# C06 receiver side

ALL_KINDS = ['NoteOff', 'NoteOn', 'KeyPressure', 'ControlChange', 'ProgramChange', 'ChannelPressure', 'PitchBendChange',
             'QuarterFrame', 'SongPositionPointer', 'SongSelect', 'TuneRequest', 'TimingClock', 'Start', 'Continue', 'Stop',
             'ActiveSensing', 'Reset']
SUPPORTED = {'NoteOff', 'NoteOn', 'ControlChange', 'PitchBendChange'}
CHANNEL_KINDS = {'NoteOff', 'NoteOn', 'KeyPressure', 'ControlChange', 'ProgramChange', 'ChannelPressure', 'PitchBendChange'}


def check_frame(res, facts, kinds=None):
    """kinds: restrict part (a) to these message variants (None = all, plus 'no message')"""
    rxf = Rx(facts)
    where = where_of(facts, RX + '::parse')
    names = variant_names(facts, MSG)
    res.ob('R-FRAME', 'message variants known', set(names) == set(ALL_KINDS), 'MidiMessage variants: %s' % names)
    n = 0
    # (a) foreign channel / unsupported variants / no message: nothing but the parser may change
    cases = [('None', None, None)]
    for k in names:
        if k in CHANNEL_KINDS:
            cases.append((k + '@foreign', k, 'foreign'))
            if k not in SUPPORTED:
                cases.append((k + '@listened', k, 'listened'))
        else:
            cases.append((k, k, None))
    if kinds is not None:
        cases = [c for c in cases if c[1] in kinds]
    for cname, kind, chan in cases:
        it = rxf.interp()
        st = State()
        rx = rxf.receiver(it, st)
        pre = copy.deepcopy(rx)
        if kind is None:
            m = option_none()
        else:
            msg = rxf.message(st, kind, ch_term=(rx.get('channel').term if chan == 'listened' else None))
            if chan == 'foreign':
                ch_t = msg.payload[msg.variant][0].fields[0].term
                st.ctx.assume(cmp_term('Ne', ch_t, rx.get('channel').term))
            m = option_some(msg)
        try:
            outs, cell, _ = run_parse(rxf, it, st, rx, m)
        except InterpError as e:
            res.ob('R-FRAME', cname, False, 'analysis failed: %s' % e, where)
            continue
        res.absorb(it)
        for o in sem_iter(outs):
            post = o.cells[cell]
            ch = [c for c in spec_fields_changed(pre, post, RX_FIELDS) if not c.startswith('parser')]
            res.ob('R-FRAME', 'ignored:' + cname, o.status == 'returned' and not ch,
                   'message that must be ignored changes %s (status %s %s)' % (ch, o.status, o.panic_info or ''), where, key='R-FRAME:ignored:' + cname)
            n += 1
    # (b) byte forwarding: every non-real-time byte reaches the parser unmodified exactly once
    classes = [('data', 0x00, 0x7F), ('channel-status', 0x80, 0xEF)] + [('0x%02X' % b, b, b) for b in range(0xF0, 0xF8)] + [('real-time', 0xF8, 0xFF)]
    if kinds is not None:
        classes = []
    for cname, lo, hi in classes:
        it = rxf.interp()
        st = State()
        rx = rxf.receiver(it, st)
        byte = int_sym(st, 'byte', lo, hi)
        outs, cell, b = run_parse(rxf, it, st, rx, option_none(), byte=byte)
        res.absorb(it)
        for o in sem_iter(outs):
            calls = [x for x in o.notes if x[0] == 'parser_call']
            if cname == 'real-time':
                ok = len(calls) <= 1 and all(c[1] == repr(byte.term) for c in calls)
            else:
                ok = len(calls) == 1 and calls[0][1] == repr(byte.term)
            res.ob('R-FRAME', 'forward:' + cname, ok and o.status == 'returned',
                   'byte class %s: parser invoked %d time(s) with %s' % (cname, len(calls), [c[1] for c in calls]), where, key='R-FRAME:forward:' + cname)
            n += 1
    return n


# ---------------------------------------------------------------------------------------
# C06 parser side: the dependency's byte-level state machine against the MIDI 1.0 framing table

PST = 'midi_convert::parse::MidiParserState'
STATUS_TO_STATE = {0x80: 'NoteOffRecvd', 0x90: 'NoteOnRecvd', 0xA0: 'KeyPressureRecvd', 0xB0: 'ControlChangeRecvd',
                   0xC0: 'ProgramChangeRecvd', 0xD0: 'ChannelPressureRecvd', 0xE0: 'PitchBendRecvd'}
# data byte in state -> (next state, emitted message or None)
DATA_TABLE = {
    'Idle': ('Idle', None),
    'NoteOnRecvd': ('NoteOnNoteRecvd', None), 'NoteOnNoteRecvd': ('NoteOnRecvd', 'NoteOn'),
    'NoteOffRecvd': ('NoteOffNoteRecvd', None), 'NoteOffNoteRecvd': ('NoteOffRecvd', 'NoteOff'),
    'KeyPressureRecvd': ('KeyPressureNoteRecvd', None), 'KeyPressureNoteRecvd': ('KeyPressureRecvd', 'KeyPressure'),
    'ControlChangeRecvd': ('ControlChangeControlRecvd', None), 'ControlChangeControlRecvd': ('ControlChangeRecvd', 'ControlChange'),
    'ProgramChangeRecvd': ('ProgramChangeRecvd', 'ProgramChange'),
    'ChannelPressureRecvd': ('ChannelPressureRecvd', 'ChannelPressure'),
    'PitchBendRecvd': ('PitchBendLsbRecvd', None), 'PitchBendLsbRecvd': ('PitchBendRecvd', 'PitchBendChange'),
    'QuarterFrameRecvd': ('QuarterFrameRecvd', 'QuarterFrame'),
    'SongPositionRecvd': ('SongPositionLsbRecvd', None), 'SongPositionLsbRecvd': ('SongPositionRecvd', 'SongPositionPointer'),
    'SongSelectRecvd': ('SongSelectRecvd', 'SongSelect'),
}
SYSTEM_TABLE = {0xF0: ('Idle', None), 0xF1: ('QuarterFrameRecvd', None), 0xF2: ('SongPositionRecvd', None),
                0xF3: ('SongSelectRecvd', None), 0xF4: ('Idle', None), 0xF5: ('Idle', None), 0xF6: ('Idle', 'TuneRequest'),
                0xF7: ('Idle', None)}
CHANNEL_MESSAGES = {'NoteOn', 'NoteOff', 'KeyPressure', 'ControlChange', 'ProgramChange', 'ChannelPressure', 'PitchBendChange'}


def check_parser(res, facts):
    """R-PARSER: 17 parser states x byte classes.  Only the clauses the receiver depends on are required:
    real-time bytes never touch the state and never produce a supported message; a status byte replaces any
    partial message; system-common bytes leave the channel-message states; data bytes follow running status and
    the emitted message carries the running channel and the data bytes in order."""
    it0 = Interp(facts)
    snames = variant_names(facts, PST)
    res.ob('R-PARSER', 'parser states known', set(snames) == set(DATA_TABLE), 'states: %s' % snames)
    where = where_of(facts, PARSER_PARSE)
    n = 0
    byte_classes = [('data', 0, 0x7F)] + [('status 0x%02X' % s, s, s + 15) for s in STATUS_TO_STATE] + \
                   [('0x%02X' % b, b, b) for b in range(0xF0, 0x100)]
    padt = facts.adt('midi_convert::parse::MidiByteStreamParser')
    for sname in snames:
        for cname, lo, hi in byte_classes:
            it = Interp(facts)
            midi_invariants(it)
            st = State()
            vi = variant_index(facts, PST, sname)
            sv = EnumV(PST, vi, {}, vnames=snames, name='state')
            it.enum_payload(st, sv, vi)
            it.apply_invariants(st, TupleV(list(sv.payload[vi])))
            for x in sv.payload[vi]:
                if isinstance(x, Num):   # raw stored data byte (LSB): 7-bit by the state invariant checked below
                    st.ctx.ranges[x.term.as_single_atom()] = (Fr(0), Fr(127))
            parser = StructV('midi_convert::parse::MidiByteStreamParser', [f['name'] for f in padt['variants'][0]['fields']], [sv])
            pre = copy.deepcopy(parser)
            byte = int_sym(st, 'byte', lo, hi)
            try:
                outs, cell = run_method(it, st, PARSER_PARSE, parser, [byte])
            except InterpError as e:
                res.ob('R-PARSER', '%s x %s' % (sname, cname), False, 'analysis failed: %s' % e, where)
                continue
            res.absorb(it)
            inst = '%s x %s' % (sname, cname)
            for o in sem_iter(outs):
                n += 1
                if o.status != 'returned':
                    res.ob('R-PARSER', inst, False, 'path ends with %s: %s' % (o.status, o.panic_info), where, key='R-PARSER:' + inst)
                    continue
                post = o.cells[cell]
                ps = post.fields[0]
                ret = o.ret
                emitted = None
                if isinstance(ret, EnumV) and ret.variant == 1:
                    m = ret.payload[1][0]
                    emitted = m.vnames[m.variant] if isinstance(m, EnumV) and m.variant is not None else '?'
                post_name = ps.vnames[ps.variant] if isinstance(ps, EnumV) and ps.variant is not None else '?'
                # state invariant is inductive: stored channel <= 15, stored data bytes <= 127
                if isinstance(ps, EnumV) and ps.variant is not None:
                    for x in ps.payload.get(ps.variant, []):
                        lim = 15 if isinstance(x, StructV) and x.path == CH else 127
                        tx = x.fields[0].term if isinstance(x, StructV) else (x.term if isinstance(x, Num) else None)
                        if tx is not None:
                            lo_, hi_ = o.ctx.rng(tx)
                            res.ob('R-PARSER-INV', inst + '|stored<=%d' % lim, lo_ >= 0 and hi_ <= lim,
                                   'stored value %r in [%s,%s]' % (tx, lo_, hi_), where, key='R-PARSER-INV:' + inst)
                if cname == 'data':
                    exp_state, exp_msg = DATA_TABLE[sname]
                    ok = post_name == exp_state and emitted == exp_msg
                    detail = 'data byte in %s -> state %s, message %s; expected %s, %s' % (sname, post_name, emitted, exp_state, exp_msg)
                    if ok and exp_msg in CHANNEL_MESSAGES:
                        # payload: running channel, stored first data byte, this byte
                        ok, d2 = payload_ok(o, pre, ret.payload[1][0], byte, sname)
                        detail += '; ' + d2
                    if ok and exp_msg is None and exp_state != 'Idle':
                        ok, d2 = stored_ok(o, pre, ps, byte, sname)
                        detail += '; ' + d2
                    res.ob('R-PARSER', inst, ok, detail, where, key='R-PARSER:' + inst)
                elif cname.startswith('status'):
                    exp_state = STATUS_TO_STATE[lo]
                    ok = post_name == exp_state and emitted is None
                    # channel = low nibble
                    d2 = ''
                    if ok:
                        chv = ps.payload[ps.variant][0].fields[0].term
                        ok = chv == byte.term - lo or chv == Poly.atom(('mod', byte.term, Poly.const(16)))
                        d2 = '; channel term %r' % (chv,)
                    res.ob('R-PARSER', inst, ok, 'status byte -> state %s, message %s; expected %s, None%s' % (post_name, emitted, exp_state, d2), where, key='R-PARSER:' + inst)
                elif lo >= 0xF8:
                    ok = same(pre, post) and emitted not in SUPPORTED
                    res.ob('R-PARSER', inst, ok, 'real-time byte: state %s -> %s, message %s (state must be untouched, no channel message)' % (sname, post_name, emitted), where, key='R-PARSER:' + inst)
                else:
                    exp_state, exp_msg = SYSTEM_TABLE[lo]
                    ok = post_name == exp_state and emitted == exp_msg
                    res.ob('R-PARSER', inst, ok, 'system-common byte -> state %s, message %s; expected %s, %s' % (post_name, emitted, exp_state, exp_msg), where, key='R-PARSER:' + inst)
    res.floor('parser_cells', n, 17 * 24)
    return n


def payload_ok(o, pre, msg, byte, sname):
    st_pre = pre.fields[0]
    pl0 = st_pre.payload[st_pre.variant]
    pm = msg.payload[msg.variant]
    ok = same(pm[0], pl0[0])  # channel
    d = 'channel %r' % (pm[0],)
    if len(pl0) == 2:
        kind = msg.vnames[msg.variant]
        if kind == 'PitchBendChange':
            v14 = pm[1]
            ok = ok and isinstance(v14, StructV) and v14.fields[0].term == byte.term and same(v14.fields[1], pl0[1])
            d += ', value14 (msb=%r, lsb=%r) expected (this byte, stored byte)' % (v14.fields[0], v14.fields[1])
        else:
            ok = ok and same(pm[1], pl0[1]) and pm[2].fields[0].term == byte.term
            d += ', data1 %r, data2 %r' % (pm[1], pm[2])
    else:
        ok = ok and pm[1].fields[0].term == byte.term
        d += ', data %r' % (pm[1],)
    return ok, d


def stored_ok(o, pre, ps, byte, sname):
    st_pre = pre.fields[0]
    pl0 = st_pre.payload.get(st_pre.variant, [])
    pl1 = ps.payload[ps.variant]
    ok = True
    if pl0:
        ok = same(pl1[0], pl0[0])
    last = pl1[-1]
    lt = last.fields[0].term if isinstance(last, StructV) else last.term
    ok = ok and lt == byte.term
    return ok, 'stored %r' % (pl1,)
