"""C20 (R-CLAMP, R-NEWTYPE): out-of-range parameters are clamped to the nearest legal value."""
import copy
from fractions import Fraction as Fr

from ..terms import (Poly, B, INF, TRUE, FALSE, ZERO, ONE, NAN, bconst, cmp_term, as_poly)
from ..interp import (Interp, State, Num, BoolV, StructV, EnumV, TupleV, RefV, ContV, Opaque, UnitV, InterpError)
from .common import *
from .glide import facts_f32

TP = 'synth_utils::adsr::TimePeriod'
SL = 'synth_utils::adsr::SustainLevel'
NOTE = 'synth_utils::quantizer::Note'
RX = 'synth_utils::mono_midi_receiver::MonoMidiReceiver'


def float_clamp(res, facts, ty, lo, hi):
    path = '<%s as core::convert::From<f32>>::from' % ty
    where = where_of(facts, path)
    name = ty.split('::')[-1]
    from ..terms import PINF_ATOM, NINF_ATOM
    FMAX = Fr(2 ** 128 - 2 ** 104)   # f32::MAX
    parts = [('-inf', 'ninf', 'lo'), ('below', (-FMAX, lo), 'lo'), ('inside', (lo, hi), 'id'), ('above', (hi, FMAX), 'hi'), ('+inf', 'pinf', 'hi'), ('nan', None, 'bound')]
    # what the conversion makes of the bounds themselves: an out-of-range argument has to produce the very same object, in every
    # field (a derived quantity cached beside the clamped value must be derived from the clamped value)
    ref = {}
    for bname, bval in (('lo', lo), ('hi', hi)):
        it = Interp(facts)
        st = State()
        rs = [o for o in sem_iter(it.run(it.start(path, [Num(Poly.const(bval), 'f32')], state=st))) if o.status == 'returned' and isinstance(o.ret, StructV)]
        ref[bname] = rs[0].ret if len(rs) == 1 else None
        res.ob('R-CLAMP', '%s::from|%s bound itself' % (name, bname), ref[bname] is not None and ref[bname].fields[0].term == Poly.const(bval),
               '%s::from(%s) = %r' % (name, float(bval), ref[bname]), where, key='R-CLAMP:%s:ref:%s' % (name, bname))
    for pname, rng, exp in parts:
        it = Interp(facts)
        st = State()
        if rng is None:
            x = Num(NAN, 'f32')
        elif rng == 'pinf':
            x = Num(Poly.atom(PINF_ATOM), 'f32')
        elif rng == 'ninf':
            x = Num(Poly.atom(NINF_ATOM), 'f32')
        else:
            x = float_sym(st, 'x', *rng)
            if pname == 'below':
                st.ctx.assume(cmp_term('Lt', x.term, lo))
            if pname == 'above':
                st.ctx.assume(cmp_term('Gt', x.term, hi))
        outs = it.run(it.start(path, [x], state=st))
        res.absorb(it)
        for o in sem_iter(outs):
            inst = '%s::from|%s' % (name, pname)
            if o.status != 'returned' or not isinstance(o.ret, StructV):
                res.ob('R-CLAMP', inst, False, 'path ends with %s: %s' % (o.status, o.panic_info), where, key='R-CLAMP:' + inst)
                continue
            t = o.ret.fields[0].term
            if exp == 'lo':
                ok = t == Poly.const(lo)
            elif exp == 'hi':
                ok = t == Poly.const(hi)
            elif exp == 'id':
                ok = t == x.term
            else:
                c = t.const_value()
                ok = (not t.is_nan()) and c is not None and c in (lo, hi)
            res.ob('R-CLAMP', inst, ok, '%s::from(x) = %r for x %s; expected %s' % (name, t, pname, {'lo': float(lo), 'hi': float(hi), 'id': 'x', 'bound': 'a bound (never NaN)'}[exp]), where, key='R-CLAMP:' + inst)
            if ok and exp != 'id' and len(o.ret.fields) > 1:
                want = [ref[exp]] if exp in ref else [ref['lo'], ref['hi']]
                whole = any(w is not None and same(o.ret, w) for w in want)
                res.ob('R-CLAMP', inst + '|whole object equals the bound\'s', whole,
                       '%s::from(x) = %r for x %s, but the bound itself converts to %r: the two configure differently' % (name, o.ret, pname, [w for w in want]), where, key='R-CLAMP:whole:' + inst)
    # reverse conversion is the identity on the stored value
    rev = 'synth_utils::adsr::<impl core::convert::From<%s> for f32>::from' % ty
    if rev in facts.fns:
        it = Interp(facts)
        st = State()
        v = it.sym_value(st, adt_ty(ty), 'v')
        outs = it.run(it.start(rev, [v], state=st))
        for o in sem_iter(outs):
            res.ob('R-CLAMP', 'f32::from(%s)' % name, o.status == 'returned' and isinstance(o.ret, Num) and o.ret.term == v.fields[0].term, 'returns %r' % (o.ret,), where_of(facts, rev))
    else:
        res.ob('R-CLAMP', 'f32::from(%s)' % name, False, 'reverse conversion not found (anchor)', key='R-CLAMP:rev:' + name)


def int_clamp(res, facts, path, lim, extract, argname='n'):
    where = where_of(facts, path)
    for pname, (lo, hi) in (('n<=%d' % lim, (0, lim)), ('n>%d' % lim, (lim + 1, 255))):
        it = Interp(facts)
        st = State()
        n = int_sym(st, argname, lo, hi)
        outs = it.run(it.start(path, [n], state=st))
        res.absorb(it)
        for o in sem_iter(outs):
            t = extract(o.ret) if o.status == 'returned' else None
            exp = n.term if hi <= lim else Poly.const(lim)
            res.ob('R-CLAMP', '%s|%s' % ('::'.join(path.split('::')[-2:]), pname), t == exp, 'result %r for %s in [%d,%d]; expected %r' % (t, argname, lo, hi, exp), where,
                   key='R-CLAMP:%s:%s' % (path, pname))


def newtype_sites(res, facts, ty, allowed_fns, lo, hi):
    """every construction site of the newtype in the crate is inside its validating constructor, or stores a constant within range"""
    n = 0
    for fp, f in facts.fns.items():
        if f['crate'] != 'synth_utils' or f.get('derived'):
            continue
        for b in f['blocks']:
            for s in b['stmts']:
                if s['k'] == 'assign' and s['rv']['k'] == 'aggregate' and s['rv'].get('path') == ty:
                    n += 1
                    if fp in allowed_fns:
                        continue
                    op = s['rv']['fields'][0]
                    ok = False
                    desc = 'non-constant operand'
                    if op['k'] == 'const':
                        v = op['c'].get('val', {})
                        if 'float_bits' in v:
                            from ..terms import f32_from_bits
                            c = Fr(f32_from_bits(int(v['float_bits'])))
                            ok = lo <= c <= hi
                            desc = 'constant %s' % float(c)
                        elif 'int' in v:
                            ok = lo <= int(v['int']) <= hi
                            desc = 'constant %s' % v['int']
                    res.ob('R-NEWTYPE', '%s built outside its validating constructor in %s' % (ty.split('::')[-1], fp.split('::')[-1]), ok,
                           '%s constructed directly at %s (%s): the clamping conversion must be the only way in' % (ty.split('::')[-1], s['span'], desc), s['span'], key='R-NEWTYPE:site:%s:%s' % (ty, fp))
    res.floor('sites:' + ty.split('::')[-1], n, 1)
    # the field is private (no construction / mutation from outside the module)
    adt = facts.adt(ty)
    priv = all(not f['pub'] for f in adt['variants'][0]['fields'])
    res.ob('R-NEWTYPE', '%s field is private' % ty.split('::')[-1], priv, 'a public field lets callers bypass the clamp', adt['span'], key='R-NEWTYPE:private:' + ty)


def check_clamps(res, facts, tier='quick'):
    MIN = facts.const_float('synth_utils::adsr::MIN_TIME_PERIOD_SEC')
    MAX = facts.const_float('synth_utils::adsr::MAX_TIME_PERIOD_SEC')
    res.ob('R-CLAMP', 'documented time limits', MIN == facts_f32(0.001) and MAX == 20, 'MIN_TIME_PERIOD_SEC=%s MAX_TIME_PERIOD_SEC=%s; documented [0.001, 20] s' % (float(MIN), float(MAX)))
    float_clamp(res, facts, TP, facts_f32(0.001), Fr(20))
    float_clamp(res, facts, SL, Fr(0), Fr(1))
    int_clamp(res, facts, NOTE + '::new', 11, lambda r: r.fields[0].term if isinstance(r, StructV) else None)
    int_clamp(res, facts, '<synth_utils::quantizer::Note as core::convert::From<u8>>::from', 11, lambda r: r.fields[0].term if isinstance(r, StructV) else None)
    int_clamp(res, facts, RX + '::new', 15, lambda r: r.get('channel').term if isinstance(r, StructV) else None, 'channel')
    newtype_sites(res, facts, TP, {'<synth_utils::adsr::TimePeriod as core::convert::From<f32>>::from'}, facts_f32(0.001), Fr(20))
    newtype_sites(res, facts, SL, {'<synth_utils::adsr::SustainLevel as core::convert::From<f32>>::from'}, Fr(0), Fr(1))
    newtype_sites(res, facts, NOTE, {NOTE + '::new'}, 0, 11)
    # u8::from(Note) is the identity
    rev = 'synth_utils::quantizer::<impl core::convert::From<synth_utils::quantizer::Note> for u8>::from'
    it = Interp(facts)
    st = State()
    v = it.sym_value(st, adt_ty(NOTE), 'v')
    for o in sem_iter(it.run(it.start(rev, [v], state=st))):
        res.ob('R-CLAMP', 'u8::from(Note)', o.status == 'returned' and isinstance(o.ret, Num) and o.ret.term == v.fields[0].term, 'returns %r' % (o.ret,), where_of(facts, rev))
    # the envelope stores exactly what the conversion produced (so x and its bound configure identically)
    from . import dds
    dds.check_set_input(res, facts, only_stored=True)
    # the listened channel is only ever compared, never re-derived
    if tier == 'thorough':
        from .. import witness
        witness.run_witnesses(res, ['W1'])
