#!/usr/bin/env python3
"""Regenerate /verif/MANIFEST.json from sa/props.py (single source of truth for levels/notes)."""
import json, os, sys
sys.path.insert(0, os.path.dirname(os.path.dirname(os.path.abspath(__file__))))
from sa import props

ALL = ['C%02d' % i for i in range(1, 21)]
checks = []
na = []
for p in ALL:
    spec = props.PROPS.get(p)
    if spec is None or spec.get('disabled'):
        na.append({'property_id': p, 'reason': props.NOT_APPLICABLE.get(p, 'no sound static rule built for this property yet; not claimed')})
        continue
    checks.append({
        'property_id': p,
        'quick_cmd': './check %s --tier quick' % p,
        'thorough_cmd': './check %s --tier thorough' % p,
        'evidence_file': '/verif/evidence/%s.json' % p,
        'replay_cmd_template': './check %s --explain {path}' % p,
        'engine': 'mirfacts+absint',
        'level_claimed': {'category': spec['level'], 'text': spec['claim'] if 'claim' in spec else spec['explanation'], 'design_ref': 'DESIGN.md §6 ' + p},
        'level_note': spec.get('note', props.DEFAULT_NOTE) + ' NOT DECIDED by this check: ' + spec.get('undecided', 'see DESIGN.md') + '.',
        'technique': spec.get('technique', 'static analysis: abstract interpretation of rustc MIR (effect summaries, term/interval domains) compared with spec tables'),
    })
m = {
    'version': 1,
    'setup_cmd': 'cd /verif/driver && CARGO_NET_OFFLINE=true cargo build --release --offline && cd /verif && python3 -c "import sa.props"',
    'hooks': {
        'guard': 'synth_utils_verif',
        'enable': 'none needed: the checks read the MIR of the unmodified crate (cargo +nightly check --lib with the mirfacts driver as RUSTC_WRAPPER); no source hooks exist',
        'baseline_off_cmd': 'cd /repo && cargo test --workspace --no-fail-fast --offline',
        'source_commits': [],
        'add_only': True,
    },
    'engines': [
        {'name': 'mirfacts', 'path': 'driver/', 'serves_properties': [c['property_id'] for c in checks], 'kind_free_text': 'rustc_private driver: resolved MIR, ADT layouts, evaluated constants of /repo and its dependencies as JSON facts'},
        {'name': 'absint', 'path': 'sa/', 'serves_properties': [c['property_id'] for c in checks], 'kind_free_text': 'abstract interpreter over the MIR facts (trace partitioning, term + interval domains, library models) and repository-specific rules'},
    ],
    'checks': checks,
    'not_applicable': na,
    'notes': 'Technique family: static analysis only. Nine genuine defects were found and repaired in /repo (fix: commits); see known_findings.json and DESIGN.md §2.',
}
json.dump(m, open(os.path.join(os.path.dirname(os.path.dirname(os.path.abspath(__file__))), 'MANIFEST.json'), 'w'), indent=1)
print('claimed', [c['property_id'] for c in checks]); print('not_applicable', [n['property_id'] for n in na])
