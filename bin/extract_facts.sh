#!/bin/bash
# extract_facts.sh <out_dir> [profile: dev|release] [repo_dir]
# Runs /repo's real build (cargo +nightly check --lib) with the mirfacts driver as
# RUSTC_WRAPPER in a fresh target dir (so cargo's freshness cache can never skip it),
# writes one JSON per crate into <out_dir>, removes the target dir.
set -euo pipefail
OUT="$1"; PROFILE="${2:-dev}"; REPO="${3:-/repo}"
HERE="$(cd "$(dirname "$0")/.." && pwd)"
DRV="$HERE/driver/target/release/mirfacts"
[ -x "$DRV" ] || { echo "extract_facts: driver not built ($DRV); run setup" >&2; exit 2; }
mkdir -p "$OUT"
TD="$(mktemp -d /tmp/mirfacts-target.XXXXXX)"
trap 'rm -rf "$TD"' EXIT
SYSROOT="$(rustc +nightly --print sysroot)"
PFLAG=""
[ "$PROFILE" = "release" ] && PFLAG="--release"
cd "$REPO"
LD_LIBRARY_PATH="$SYSROOT/lib" \
RUSTFLAGS="-Zmir-opt-level=0 -Awarnings" \
RUSTC_WRAPPER="$DRV" \
MIRFACTS_OUT="$OUT" \
MIRFACTS_CRATES="synth_utils,midi_convert,midi_types,biquad" \
CARGO_TARGET_DIR="$TD" CARGO_NET_OFFLINE=true \
cargo +nightly check --offline --lib $PFLAG >"$OUT/cargo.log" 2>&1 || { cat "$OUT/cargo.log" >&2; echo "extract_facts: cargo check failed" >&2; exit 3; }
for c in synth_utils midi_convert midi_types biquad; do
  [ -s "$OUT/$c.json" ] || { echo "extract_facts: missing fact file for $c" >&2; exit 4; }
done
